(* A Gallina MODEL OF THE TYPE CHECKER of garble-lang (src/check.rs), function by function, for
   a fragment.  Definitions only (theorems: Check/InferProofs.v, examples: Check/InferExamples.v).

   INPUT  : Check/UAst.v [uprogram] (the untyped ast.rs `Program<()>`).
   OUTPUT : [check_program_t] returns the checker's own typed tree ([tprogram]: types are
            ast.rs `Type` with the number types of token.rs, INCLUDING `Unspecified`);
            [check_program] composes it with [export_program], the function of the harness
            exporter (harness/src/prog.rs: widths, interned names, variant indices, functions /
            structs / enums sorted by name) and returns a Lang/Ast.v [program].

   MIRRORED (same order of tests, same mutation of the typed tree):
     UntypedProgram::type_check (struct / enum definitions, duplicate fields / variants, the
     pub-fn loop, PubFnWithoutParams, UnusedFn), UntypedFnDef::type_check (RecursiveFnDef,
     DuplicateFnParam, the fresh Env with two scopes, the return-type check on the last
     statement), type_check_block, UntypedStmt::type_check (Let, LetMut with constrain_to_i32,
     VarAssign with its accessor loop, ForEachLoop, Expr), UntypedExpr::type_check (every arm
     except the two listed below), UntypedPattern::type_check (all arms),
     expect_array_type / _struct_type / _tuple_type / _num_type / _signed_num_type /
     _bool_or_num_type / expect_pattern_num_in_range, check_or_constrain_unsigned / _signed,
     constrain_type with overwrite_ty_if_necessary, check_type, unify, Env (push / pop /
     get / let_in_current_scope).

   DELIBERATE DIFFERENCES (each is unobservable on the "accepted" path):
   - ERRORS: check.rs collects errors and continues; the model stops at the FIRST error
     ([CErr code], one code per TypeErrorEnum kind).  Every error of check.rs ends in
     `Err(..)` of `type_check` (all error vectors are propagated to the top), so the set of
     accepted programs is the same; the CODE may differ from the first error Rust prints.
     Consequently `Option<Type> = None` bindings (the markers check.rs leaves in the Env after
     an error, and the temporary `(None, Mutable)` binding of LetMut) never exist in the model.
   - PANICS of check.rs that are reachable from an untyped tree are [CErr E_Panic]:
     `typed_fields.first().unwrap()` on an empty array literal, `.first().unwrap()` on a match
     without clauses.
   - HashMap iteration order (pub-fn loop, struct / enum loops): the model walks the lists of
     [uprogram] in order.
   - MetaInfo is dropped (every exported node has the zero meta).
   - exhaustiveness (check_exhaustiveness): a `let` / `for` / single-arm pattern that is
     IRREFUTABLE (identifiers, tuples and struct patterns of irrefutable patterns) is accepted
     directly (the usefulness algorithm returns no witness for such a row); every other call
     goes to Exhaust/Useful.v [check_exhaustive] when the scrutinee type and the definitions it
     can reach have no array type, and is [COutside] otherwise.
   OUTSIDE THE MODEL ([COutside]): const definitions that are not literals of their declared
     type (external values, min / max / + / -), array types / repeat literals whose size is a
     const (`[T; N]`, `[e; N]`), `const { .. }` sizes, BuiltInFnCall::Join, `for .. in
     join_iter(..)`.
   FUEL: one unit per nesting level (expression / statement / block / function body) and per
   level of constrain_type; [CNoFuel] is never a Rust behaviour. *)
From GV Require Import Base.Util Front.Scan Front.ParseExpr Check.UAst.
From GV Require Lang.Ast Exhaust.Pat Exhaust.Useful.
From Coq Require Import String.
Local Open Scope N_scope.

(* ------------------------------------------------------------------ results *)

Inductive cres (A : Type) : Type :=
| COk (a : A)
| CErr (code : N)
| COutside
| CNoFuel.
Arguments COk {A} a.
Arguments CErr {A} code.
Arguments COutside {A}.
Arguments CNoFuel {A}.

Definition cbind {A B} (r : cres A) (k : A -> cres B) : cres B :=
  match r with
  | COk a => k a
  | CErr c => CErr c
  | COutside => COutside
  | CNoFuel => CNoFuel
  end.

Notation "'do' x <- r ; k" := (cbind r (fun x => k))
  (at level 200, x pattern, r at level 100, k at level 200).

Definition is_ok {A} (r : cres A) : bool := match r with COk _ => true | _ => false end.

(* TypeErrorEnum: one code per kind *)
Definition E_NoTopLevelFn : N := 1.
Definition E_PubFnWithoutParams : N := 2.
Definition E_UnusedFn : N := 3.
Definition E_RecursiveFnDef : N := 4.
Definition E_RecursiveTypeDef : N := 5.
Definition E_UnknownStructOrEnum : N := 6.
Definition E_UnknownStruct : N := 7.
Definition E_UnknownStructField : N := 8.
Definition E_MissingStructField : N := 9.
Definition E_DuplicateStructField : N := 10.
Definition E_DuplicateEnumVariant : N := 11.
Definition E_UnknownEnum : N := 12.
Definition E_UnknownEnumVariant : N := 13.
Definition E_UnknownIdentifier : N := 14.
Definition E_IdentifierNotDeclaredAsMutable : N := 15.
Definition E_TupleAccessOutOfBounds : N := 16.
Definition E_DuplicateFnParam : N := 17.
Definition E_ExpectedBoolOrNumberType : N := 18.
Definition E_ExpectedNumberType : N := 19.
Definition E_ExpectedSignedNumberType : N := 20.
Definition E_ExpectedArrayType : N := 21.
Definition E_ExpectedTupleType : N := 22.
Definition E_ExpectedStructType : N := 23.
Definition E_ExpectedEnumType : N := 24.
Definition E_ExpectedUnitVariantFoundTupleVariant : N := 25.
Definition E_ExpectedTupleVariantFoundUnitVariant : N := 26.
Definition E_UnexpectedEnumVariantArity : N := 27.
Definition E_UnexpectedType : N := 28.
Definition E_WrongNumberOfArgs : N := 29.
Definition E_TypeMismatch : N := 30.
Definition E_InvalidRange : N := 31.
Definition E_PatternDoesNotMatchType : N := 32.
Definition E_PatternsAreNotExhaustive : N := 33.
Definition E_TypeDoesNotSupportPatternMatching : N := 34.
Definition E_ArraySizeNotConst : N := 35.
Definition E_UsizeNotLiteral : N := 36.
Definition E_Panic : N := 99.           (* check.rs panics (unwrap on None) *)

(* ------------------------------------------------------------------ ast.rs Type (typed) *)

Inductive cty :=
| CBool
| CUnsigned (t : unsigned_num_type)
| CSigned (t : signed_num_type)
| CArray (elem : cty) (n : N)
| CTuple (ts : list cty)
| CStruct (name : list N)
| CEnum (name : list N).

Definition unsigned_eqb (a b : unsigned_num_type) : bool :=
  if unsigned_num_type_eq_dec a b then true else false.
Definition signed_eqb (a b : signed_num_type) : bool :=
  if signed_num_type_eq_dec a b then true else false.

(* #[derive(PartialEq)] on Type *)
Fixpoint cty_eqb (a b : cty) {struct a} : bool :=
  match a, b with
  | CBool, CBool => true
  | CUnsigned x, CUnsigned y => unsigned_eqb x y
  | CSigned x, CSigned y => signed_eqb x y
  | CArray e1 n1, CArray e2 n2 => cty_eqb e1 e2 && (n1 =? n2)
  | CTuple xs, CTuple ys =>
      (fix go (xs ys : list cty) : bool :=
         match xs, ys with
         | [], [] => true
         | x :: xr, y :: yr => cty_eqb x y && go xr yr
         | _, _ => false
         end) xs ys
  | CStruct x, CStruct y => list_eqb x y
  | CEnum x, CEnum y => list_eqb x y
  | _, _ => false
  end.

Definition unit_cty : cty := CTuple [].
Definition uU : cty := CUnsigned UnspecifiedU.
Definition sU : cty := CSigned UnspecifiedS.
Definition is_uU (t : cty) : bool := cty_eqb t uU.
Definition is_sU (t : cty) : bool := cty_eqb t sU.

(* ------------------------------------------------------------------ the typed tree *)

Inductive tpattern :=
| TP (p : tpat_inner) (t : cty)
with tpat_inner :=
| TPIdentifier (s : list N)
| TPTrue
| TPFalse
| TPNumUnsigned (n : N) (t : unsigned_num_type)
| TPNumSigned (z : Z) (t : signed_num_type)
| TPTuple (ps : list tpattern)
| TPStruct (name : list N) (fields : list (list N * tpattern))
| TPEnumUnit (e v : list N)
| TPEnumTuple (e v : list N) (ps : list tpattern)
| TPUnsignedInclusiveRange (lo hi : N) (t : unsigned_num_type)
| TPSignedInclusiveRange (lo hi : Z) (t : signed_num_type).

Inductive texpr :=
| TE (e : texpr_inner) (t : cty)
with texpr_inner :=
| TTrue
| TFalse
| TNumUnsigned (n : N) (t : unsigned_num_type)
| TNumSigned (z : Z) (t : signed_num_type)
| TIdentifier (s : list N)
| TArrayLiteral (es : list texpr)
| TArrayRepeatLiteral (e : texpr) (n : N)
| TArrayAccess (a i : texpr)
| TTupleLiteral (es : list texpr)
| TTupleAccess (e : texpr) (i : N)
| TStructAccess (e : texpr) (f : list N)
| TStructLiteral (name : list N) (fields : list (list N * texpr))
| TEnumLiteral (e v : list N) (args : option (list texpr))
| TMatch (e : texpr) (arms : list (tpattern * texpr))
| TUnaryOp (o : unary_op) (e : texpr)
| TOp (o : bin_op) (l r : texpr)
| TBlock (b : list tstmt)
| TFnCall (f : list N) (args : list texpr)
| TIf (c t e : texpr)
| TCast (ty : cty) (e : texpr)
| TRange (lo hi : N) (t : unsigned_num_type)
with tstmt :=
| TSLet (p : tpattern) (e : texpr)
| TSLetMut (x : list N) (e : texpr)
| TSVarAssign (x : list N) (accs : list taccessor) (e : texpr)
| TSForEach (p : tpattern) (e : texpr) (body : list tstmt)
| TSExpr (e : texpr)
with taccessor :=
| TAArray (array_ty : cty) (index : texpr)
| TATuple (tuple_ty : cty) (index : N)
| TAStruct (struct_ty : cty) (field : list N).

Definition ty_of (e : texpr) : cty := match e with TE _ t => t end.
Definition inner_of (e : texpr) : texpr_inner := match e with TE i _ => i end.
Definition set_ty (e : texpr) (t : cty) : texpr := match e with TE i _ => TE i t end.
Definition pty_of (p : tpattern) : cty := match p with TP _ t => t end.

(* TypedFnDef (params: mutability, name, type) *)
Record tfndef := mkTFn {
  tf_pub : bool;
  tf_name : list N;
  tf_params : list (bool * list N * cty);
  tf_ty : cty;
  tf_body : list tstmt
}.

Record tprogram := mkTProgram {
  tp_consts : list (list N * texpr);                       (* literal consts, source order *)
  tp_structs : list (list N * list (list N * cty));
  tp_enums : list (list N * list (list N * option (list cty)));
  tp_fns : list (list N * tfndef);                         (* in the order they were typed *)
  tp_main : list N
}.

(* ------------------------------------------------------------------ env.rs *)

(* (type, mutable); innermost scope first; in a scope the newest binding first (a BTreeMap
   insert overwrites: only the newest binding of a name is ever seen) *)
Definition cscope := list (list N * (cty * bool)).
Definition cenv := list cscope.

Fixpoint assocL {A} (k : list N) (l : list (list N * A)) : option A :=
  match l with
  | [] => None
  | (k', v) :: r => if list_eqb k k' then Some v else assocL k r
  end.

Fixpoint env_get (g : cenv) (x : list N) : option (cty * bool) :=
  match g with
  | [] => None
  | s :: r => match assocL x s with Some v => Some v | None => env_get r x end
  end.

(* let_in_current_scope (`self.0.last_mut().unwrap()`: the stack is never empty) *)
Definition env_let (g : cenv) (x : list N) (t : cty) (m : bool) : cenv :=
  match g with
  | s :: r => ((x, (t, m)) :: s) :: r
  | [] => [[(x, (t, m))]]
  end.

Definition env_push (g : cenv) : cenv := [] :: g.
Definition env_pop (g : cenv) : cenv := match g with _ :: r => r | [] => [] end.
Definition env_new : cenv := [[]].

(* ------------------------------------------------------------------ Defs / TypedFns *)

Record defs := mkDefs {
  d_consts : list (list N * cty);
  d_structs : list (list N * list (list N * cty));
  d_enums : list (list N * list (list N * option (list cty)));
  d_fns : list ufndef;
  d_struct_names : list (list N);          (* TopLevelTypes *)
  d_enum_names : list (list N)
}.

Record cstate := mkSt {
  st_env : cenv;
  st_typed : list (list N * tfndef);       (* TypedFns.typed (only Ok entries exist) *)
  st_checking : list (list N)              (* TypedFns.currently_being_checked *)
}.

Definition with_env (st : cstate) (g : cenv) : cstate := mkSt g (st_typed st) (st_checking st).
Definition memL (x : list N) (l : list (list N)) : bool := existsb (list_eqb x) l.

(* ------------------------------------------------------------------ token.rs min / max *)

Definition u32_max : N := 4294967295.
Definition unsigned_max (t : unsigned_num_type) : option N :=
  match t with
  | Usize => Some u32_max
  | U8 => Some 255
  | U16 => Some 65535
  | U32 => Some u32_max
  | U64 => Some 18446744073709551615
  | UnspecifiedU => None
  end.
Definition signed_min (t : signed_num_type) : option Z :=
  match t with
  | I8 => Some (-128)%Z
  | I16 => Some (-32768)%Z
  | I32 => Some (-2147483648)%Z
  | I64 => Some (-9223372036854775808)%Z
  | UnspecifiedS => None
  end.
Definition signed_max (t : signed_num_type) : option Z :=
  match t with
  | I8 => Some 127%Z
  | I16 => Some 32767%Z
  | I32 => Some 2147483647%Z
  | I64 => Some 9223372036854775807%Z
  | UnspecifiedS => None
  end.

(* ------------------------------------------------------------------ Type::as_concrete_type *)

Fixpoint as_concrete_type (sn en : list (list N)) (t : utype) {struct t} : cres cty :=
  match t with
  | UTBool => COk CBool
  | UTUnsigned n => COk (CUnsigned n)
  | UTSigned n => COk (CSigned n)
  | UTNamed name =>
      if memL name sn then COk (CStruct name)
      else if memL name en then COk (CEnum name)
      else CErr E_UnknownStructOrEnum
  | UTTuple ts =>
      do ts' <- (fix go (l : list utype) : cres (list cty) :=
                   match l with
                   | [] => COk []
                   | x :: r => do x' <- as_concrete_type sn en x; do r' <- go r; COk (x' :: r')
                   end) ts;
      COk (CTuple ts')
  | UTArray e n => do e' <- as_concrete_type sn en e; COk (CArray e' n)
  | UTArrayConst _ _ => COutside
  | UTArrayConstExpr _ _ => COutside
  end.

Definition concrete_of (D : defs) (t : utype) : cres cty :=
  as_concrete_type (d_struct_names D) (d_enum_names D) t.

(* ------------------------------------------------------------------ expect_* *)

Definition expect_array_type (t : cty) : cres cty :=
  match t with CArray e _ => COk e | _ => CErr E_ExpectedArrayType end.
Definition expect_struct_type (t : cty) : cres (list N) :=
  match t with CStruct n => COk n | _ => CErr E_ExpectedStructType end.
Definition expect_tuple_type (t : cty) : cres (list cty) :=
  match t with CTuple ts => COk ts | _ => CErr E_ExpectedTupleType end.
Definition expect_num_type (t : cty) : cres unit :=
  match t with CUnsigned _ | CSigned _ => COk tt | _ => CErr E_ExpectedNumberType end.
Definition expect_signed_num_type (t : cty) : cres unit :=
  match t with CSigned _ => COk tt | _ => CErr E_ExpectedSignedNumberType end.
Definition expect_bool_or_num_type (t : cty) : cres unit :=
  match t with
  | CBool | CUnsigned _ | CSigned _ => COk tt
  | _ => CErr E_ExpectedBoolOrNumberType
  end.

Definition expect_pattern_num_in_range (n : Z) (t : cty) : cres unit :=
  match t with
  | CUnsigned u =>
      let mx := match unsigned_max u with Some m => Z.of_N m | None => Z.of_N u32_max end in
      if (n <? 0)%Z || (mx <? n)%Z then CErr E_PatternDoesNotMatchType else COk tt
  | CSigned s =>
      let mn := match signed_min s with Some m => m | None => (-2147483648)%Z end in
      let mx := match signed_max s with Some m => m | None => 2147483647%Z end in
      if (n <? mn)%Z || (mx <? n)%Z then CErr E_PatternDoesNotMatchType else COk tt
  | _ => COk tt
  end.

(* ------------------------------------------------------------------ check_or_constrain_* *)

Definition check_or_constrain_unsigned (e : texpr) (expected : unsigned_num_type) : cres texpr :=
  if negb (cty_eqb (ty_of e) (CUnsigned expected)) && negb (is_uU (ty_of e))
  then CErr E_UnexpectedType
  else
    match unsigned_max expected, inner_of e with
    | Some mx, TNumUnsigned n _ =>
        if mx <? n then CErr E_UnexpectedType else COk (set_ty e (CUnsigned expected))
    | _, _ => COk (set_ty e (CUnsigned expected))
    end.

Definition check_or_constrain_signed (e : texpr) (expected : signed_num_type) : cres texpr :=
  if negb (cty_eqb (ty_of e) (CSigned expected)) && negb (is_sU (ty_of e)) && negb (is_uU (ty_of e))
  then CErr E_UnexpectedType
  else
    let below :=
      match signed_min expected, inner_of e with
      | Some mn, TNumSigned z _ => (z <? mn)%Z
      | _, _ => false
      end in
    if below then CErr E_UnexpectedType else
    let above :=
      match signed_max expected, inner_of e with
      | Some mx, TNumUnsigned n _ => (mx <? Z.of_N n)%Z
      | Some mx, TNumSigned z _ => (mx <? z)%Z
      | _, _ => false
      end in
    if above then CErr E_UnexpectedType else COk (set_ty e (CSigned expected)).

(* ------------------------------------------------------------------ constrain_type *)

Fixpoint overwrite_ty (actual expected : cty) {struct expected} : cty :=
  match expected with
  | CUnsigned _ => if is_uU actual then expected else actual
  | CSigned _ => if is_uU actual || is_sU actual then expected else actual
  | CArray ex _ =>
      match actual with
      | CArray a n => CArray (overwrite_ty a ex) n
      | _ => actual
      end
  | CTuple exs =>
      match actual with
      | CTuple acts =>
          CTuple ((fix go (exs acts : list cty) : list cty :=
                     match exs, acts with
                     | ex :: exr, a :: ar => overwrite_ty a ex :: go exr ar
                     | _, _ => acts
                     end) exs acts)
      | _ => actual
      end
  | _ => actual
  end.

(* the `if let Type::Array(actual, _) = &mut expr.ty { overwrite(actual, elem_ty) }` of the
   array arms, and the zip of the tuple arms *)
Definition overwrite_elem (t : cty) (elem_ty : cty) : cty :=
  match t with CArray a n => CArray (overwrite_ty a elem_ty) n | _ => t end.
Fixpoint overwrite_zip (acts exs : list cty) : list cty :=
  match exs, acts with
  | ex :: exr, a :: ar => overwrite_ty a ex :: overwrite_zip ar exr
  | _, _ => acts
  end.
Definition overwrite_fields (t : cty) (elem_tys : list cty) : cty :=
  match t with CTuple acts => CTuple (overwrite_zip acts elem_tys) | _ => t end.

Fixpoint mapM {A B} (f : A -> cres B) (l : list A) : cres (list B) :=
  match l with
  | [] => COk []
  | x :: r => do x' <- f x; do r' <- mapM f r; COk (x' :: r')
  end.

(* `for (a, b) in xs.iter_mut().zip(ys)`: stops at the shorter list, the rest of xs is kept *)
Fixpoint zipM {A B} (f : A -> B -> cres A) (xs : list A) (ys : list B) : cres (list A) :=
  match xs, ys with
  | x :: xr, y :: yr => do x' <- f x y; do r' <- zipM f xr yr; COk (x' :: r')
  | _, _ => COk xs
  end.

(* replaces the last statement if it is an expression statement *)
Fixpoint map_last_expr (f : texpr -> cres texpr) (b : list tstmt) : cres (list tstmt) :=
  match b with
  | [] => COk []
  | [TSExpr e] => do e' <- f e; COk [TSExpr e']
  | [s] => COk [s]
  | s :: r => do r' <- map_last_expr f r; COk (s :: r')
  end.

Fixpoint constrain_type (fuel : nat) (e : texpr) (expected : cty) {struct fuel} : cres texpr :=
  match fuel with
  | O => CNoFuel
  | S f =>
      let ty := ty_of e in
      let leaf :=
        match expected with
        | CUnsigned t => check_or_constrain_unsigned e t
        | CSigned t => check_or_constrain_signed e t
        | _ => COk e
        end in
      do e1 <-
        match inner_of e with
        | TArrayLiteral elems =>
            match expected with
            | CArray elem_ty _ =>
                do elems' <- mapM (fun el => constrain_type f el elem_ty) elems;
                COk (TE (TArrayLiteral elems') (overwrite_elem ty elem_ty))
            | _ => leaf
            end
        | TArrayRepeatLiteral elem n =>
            match expected with
            | CArray elem_ty _ =>
                do elem' <- constrain_type f elem elem_ty;
                COk (TE (TArrayRepeatLiteral elem' n) (overwrite_elem ty elem_ty))
            | _ => leaf
            end
        | TTupleLiteral elems =>
            match expected with
            | CTuple elem_tys =>
                if lenN elems =? lenN elem_tys then
                  do elems' <- zipM (fun el t => constrain_type f el t) elems elem_tys;
                  COk (TE (TTupleLiteral elems') (overwrite_fields ty elem_tys))
                else COk e
            | _ => leaf
            end
        | TIdentifier _ =>
            match expected with
            | CArray elem_ty _ => COk (set_ty e (overwrite_elem ty elem_ty))
            | CTuple elem_tys => COk (set_ty e (overwrite_fields ty elem_tys))
            | _ => leaf
            end
        | TRange lo hi UnspecifiedU =>
            (* fix 7bf4e4f: an unsuffixed range takes the element type of the array type it is used at
               (its last element hi - 1 must fit); a signed element type is a type error *)
            match expected with
            | CArray (CUnsigned u) _ =>
                if (match unsigned_max u with Some mx => mx <? hi - 1 | None => false end)
                then CErr E_UnexpectedType
                else COk (TE (TRange lo hi u) ty)
            | CArray (CSigned _) _ => CErr E_UnexpectedType
            | _ => leaf
            end
        | TMatch s clauses =>
            do clauses' <- mapM (fun pc => do b <- constrain_type f (snd pc) expected; COk (fst pc, b)) clauses;
            COk (TE (TMatch s clauses') ty)
        | TUnaryOp op x =>
            do x' <- constrain_type f x expected; COk (TE (TUnaryOp op x') ty)
        | TOp op a b =>
            match op with
            | BAdd | BSub | BMul | BDiv | BMod | BBitAnd | BBitXor | BBitOr =>
                do a' <- constrain_type f a expected;
                do b' <- constrain_type f b expected;
                COk (TE (TOp op a' b') ty)
            | BShiftLeft | BShiftRight =>
                do a' <- constrain_type f a expected; COk (TE (TOp op a' b) ty)
            | BGreaterThan | BLessThan | BEq | BNotEq | BShortCircuitAnd | BShortCircuitOr => COk e
            end
        | TBlock stmts =>
            do stmts' <- map_last_expr (fun x => constrain_type f x expected) stmts;
            COk (TE (TBlock stmts') ty)
        | TIf c a b =>
            do a' <- constrain_type f a expected;
            do b' <- constrain_type f b expected;
            COk (TE (TIf c a' b') ty)
        | _ => leaf
        end;
      COk (set_ty e1 (overwrite_ty (ty_of e1) expected))
  end.

Definition check_type (fuel : nat) (e : texpr) (expected : cty) : cres texpr :=
  do e' <- constrain_type fuel e expected;
  if cty_eqb (ty_of e') expected then COk e' else CErr E_UnexpectedType.

(* fix 64720dd: is_compound_number_expr -- the number literals of such an expression sit below the node *)
Definition is_compound (e : texpr) : bool :=
  match inner_of e with
  | TOp _ _ _ | TUnaryOp _ _ | TIf _ _ _ | TMatch _ _ | TBlock _ => true
  | _ => false
  end.

(* check_or_constrain_unsigned / _signed as every caller OUTSIDE constrain_type sees them (fix 64720dd):
   the type test, then a compound expression whose type is not yet the expected one is constrained
   DEEPLY (constrain_type), everything else as before.  Inside constrain_type the leaf arm is only
   reached for non-compound nodes (the Match / UnaryOp / Op / Block / If arms come first), where the
   new test is inert: constrain_type keeps using [check_or_constrain_unsigned] / [_signed]. *)
Definition coc_unsigned_deep (fuel : nat) (e : texpr) (expected : unsigned_num_type) : cres texpr :=
  if negb (cty_eqb (ty_of e) (CUnsigned expected)) && negb (is_uU (ty_of e))
  then CErr E_UnexpectedType
  else if negb (cty_eqb (ty_of e) (CUnsigned expected)) && is_compound e
  then constrain_type fuel e (CUnsigned expected)
  else check_or_constrain_unsigned e expected.

Definition coc_signed_deep (fuel : nat) (e : texpr) (expected : signed_num_type) : cres texpr :=
  if negb (cty_eqb (ty_of e) (CSigned expected)) && negb (is_sU (ty_of e)) && negb (is_uU (ty_of e))
  then CErr E_UnexpectedType
  else if negb (cty_eqb (ty_of e) (CSigned expected)) && is_compound e
  then constrain_type fuel e (CSigned expected)
  else check_or_constrain_signed e expected.

(* unify: the two expressions with their new types, and the type *)
Definition unify (fuel : nat) (e1 e2 : texpr) : cres (texpr * texpr * cty) :=
  let t1 := ty_of e1 in
  let t2 := ty_of e2 in
  let fin (r : texpr * texpr * cty) :=
    match r with (a, b, t) => COk (set_ty a t, set_ty b t, t) end in
  if cty_eqb t1 t2 then fin (e1, e2, t1) else
  match t1, t2 with
  | CUnsigned UnspecifiedU, CUnsigned ty2 =>
      do e1' <- coc_unsigned_deep fuel e1 ty2; fin (e1', e2, CUnsigned ty2)
  | CUnsigned ty1, CUnsigned UnspecifiedU =>
      do e2' <- coc_unsigned_deep fuel e2 ty1; fin (e1, e2', CUnsigned ty1)
  | CUnsigned UnspecifiedU, CSigned ty2 =>
      do e1' <- coc_signed_deep fuel e1 ty2; fin (e1', e2, CSigned ty2)
  | CSigned ty1, CUnsigned UnspecifiedU =>
      do e2' <- coc_signed_deep fuel e2 ty1; fin (e1, e2', CSigned ty1)
  | CSigned UnspecifiedS, CSigned ty2 =>
      do e1' <- coc_signed_deep fuel e1 ty2; fin (e1', e2, CSigned ty2)
  | CSigned ty1, CSigned UnspecifiedS =>
      do e2' <- coc_signed_deep fuel e2 ty1; fin (e1, e2', CSigned ty1)
  | _, _ => CErr E_TypeMismatch
  end.

(* LetMut: constrain_to_i32 *)
Definition i32_if_unspec (t : cty) : cty := if is_uU t || is_sU t then CSigned I32 else t.

Fixpoint constrain_to_i32 (fuel : nat) (b : texpr) {struct fuel} : cres texpr :=
  match fuel with
  | O => CNoFuel
  | S f =>
      do b1 <- (if is_uU (ty_of b) || is_sU (ty_of b) then coc_signed_deep fuel b I32 else COk b);
      do b2 <-
        match inner_of b1 with
        | TArrayLiteral es => do es' <- mapM (constrain_to_i32 f) es; COk (TE (TArrayLiteral es') (ty_of b1))
        | TTupleLiteral es => do es' <- mapM (constrain_to_i32 f) es; COk (TE (TTupleLiteral es') (ty_of b1))
        | TArrayRepeatLiteral x n => do x' <- constrain_to_i32 f x; COk (TE (TArrayRepeatLiteral x' n) (ty_of b1))
        | _ => COk b1
        end;
      let t2 := match ty_of b2 with CArray t n => CArray (i32_if_unspec t) n | t => t end in
      let t3 := match t2 with CTuple ts => CTuple (map i32_if_unspec ts) | t => t end in
      COk (set_ty b2 t3)
  end.

(* ------------------------------------------------------------------ UntypedPattern::type_check *)

Definition has_dup_before {A} (fields : list (list N * A)) : bool :=
  (fix go (seen : list (list N)) (l : list (list N * A)) : bool :=
     match l with
     | [] => false
     | (f, _) :: r => memL f seen || go (f :: seen) r
     end) [] fields.

Definition missing_field {A B} (def : list (list N * A)) (fields : list (list N * B)) : bool :=
  existsb (fun d => negb (existsb (fun f => list_eqb (fst f) (fst d)) fields)) def.

Fixpoint check_pattern (D : defs) (g : cenv) (p : upattern) (ty : cty) {struct p}
  : cres (tpattern * cenv) :=
  let fields_loop :=
    fix go (fs : list upattern) (ts : list cty) (g : cenv) : cres (list tpattern * cenv) :=
      match fs, ts with
      | fp :: fr, t :: tr =>
          do r1 <- check_pattern D g fp t;
          do r2 <- go fr tr (snd r1);
          COk (fst r1 :: fst r2, snd r2)
      | _, _ => COk ([], g)
      end in
  match p with
  | PIdentifier s => COk (TP (TPIdentifier s) ty, env_let g s ty false)
  | PTrue => match ty with CBool => COk (TP TPTrue ty, g) | _ => CErr E_UnexpectedType end
  | PFalse => match ty with CBool => COk (TP TPFalse ty, g) | _ => CErr E_UnexpectedType end
  | PNumUnsigned n suffix =>
      do _ <- expect_num_type ty;
      do _ <- expect_pattern_num_in_range (Z.of_N n) ty;
      COk (TP (TPNumUnsigned n suffix) ty, g)
  | PNumSigned z suffix =>
      do _ <- expect_signed_num_type ty;
      do _ <- expect_pattern_num_in_range z ty;
      COk (TP (TPNumSigned z suffix) ty, g)
  | PUnsignedInclusiveRange lo hi suffix =>
      do _ <- expect_num_type ty;
      do _ <- expect_pattern_num_in_range (Z.of_N lo) ty;
      do _ <- expect_pattern_num_in_range (Z.of_N hi) ty;
      COk (TP (TPUnsignedInclusiveRange lo hi suffix) ty, g)
  | PSignedInclusiveRange lo hi suffix =>
      do _ <- expect_signed_num_type ty;
      do _ <- expect_pattern_num_in_range lo ty;
      do _ <- expect_pattern_num_in_range hi ty;
      COk (TP (TPSignedInclusiveRange lo hi suffix) ty, g)
  | PTuple fields =>
      do field_types <- expect_tuple_type ty;
      if negb (lenN field_types =? lenN fields) then CErr E_UnexpectedEnumVariantArity else
      do r <- fields_loop fields field_types g;
      COk (TP (TPTuple (fst r)) ty, snd r)
  | PStruct struct_name fields | PStructIgnoreRemaining struct_name fields =>
      let ignore_remaining :=
        match p with PStructIgnoreRemaining _ _ => true | _ => false end in
      do struct_def_name <- expect_struct_type ty;
      if negb (list_eqb struct_def_name struct_name) then CErr E_UnexpectedType else
      match assocL struct_name (d_structs D) with
      | Some struct_def =>
          do r <- (fix go (seen : list (list N)) (fs : list (list N * upattern)) (g : cenv)
                     : cres (list (list N * tpattern) * cenv) :=
                     match fs with
                     | [] => COk ([], g)
                     | (field_name, field_value) :: fr =>
                         if memL field_name seen then CErr E_PatternDoesNotMatchType else
                         match assocL field_name struct_def with
                         | Some field_type =>
                             do r1 <- check_pattern D g field_value field_type;
                             do r2 <- go (field_name :: seen) fr (snd r1);
                             COk ((field_name, fst r1) :: fst r2, snd r2)
                         | None => CErr E_UnknownStructField
                         end
                     end) [] fields g;
          if negb ignore_remaining && (lenN fields <? lenN struct_def) && missing_field struct_def fields
          then CErr E_MissingStructField
          else COk (TP (TPStruct struct_name (fst r)) ty, snd r)
      | None => CErr E_UnknownStruct
      end
  | PEnumUnit enum_name variant_name =>
      match ty with
      | CEnum n =>
          if negb (list_eqb n enum_name) then CErr E_UnexpectedType else
          match assocL enum_name (d_enums D) with
          | Some enum_def =>
              match assocL variant_name enum_def with
              | Some None => COk (TP (TPEnumUnit enum_name variant_name) ty, g)
              | Some (Some _) => CErr E_ExpectedTupleVariantFoundUnitVariant
              | None => CErr E_UnknownEnumVariant
              end
          | None => CErr E_UnknownEnum
          end
      | _ => CErr E_UnexpectedType
      end
  | PEnumTuple enum_name variant_name fields =>
      match ty with
      | CEnum n =>
          if negb (list_eqb n enum_name) then CErr E_UnexpectedType else
          match assocL enum_name (d_enums D) with
          | Some enum_def =>
              match assocL variant_name enum_def with
              | Some (Some field_types) =>
                  if negb (lenN field_types =? lenN fields) then CErr E_UnexpectedEnumVariantArity else
                  do r <- fields_loop fields field_types g;
                  COk (TP (TPEnumTuple enum_name variant_name (fst r)) ty, snd r)
              | Some None => CErr E_ExpectedUnitVariantFoundTupleVariant
              | None => CErr E_UnknownEnumVariant
              end
          | None => CErr E_UnknownEnum
          end
      | _ => CErr E_UnexpectedType
      end
  end.

(* ------------------------------------------------------------------ check_exhaustiveness *)

Section WithIntern.
Variable intern : list N -> N.

Definition ubits (t : unsigned_num_type) : N :=
  match t with U8 => 8 | U16 => 16 | U32 | Usize | UnspecifiedU => 32 | U64 => 64 end.
Definition sbits (t : signed_num_type) : N :=
  match t with I8 => 8 | I16 => 16 | I32 | UnspecifiedS => 32 | I64 => 64 end.

Fixpoint irrefutable (p : tpattern) : bool :=
  match p with
  | TP (TPIdentifier _) _ => true
  | TP (TPTuple ps) _ => forallb irrefutable ps
  | TP (TPStruct _ fs) _ => forallb (fun f => irrefutable (snd f)) fs
  | _ => false
  end.

Fixpoint pat_ty (t : cty) : option Pat.ty :=
  match t with
  | CBool => Some Pat.TBool
  | CUnsigned u => Some (Pat.TInt false (ubits u))
  | CSigned s => Some (Pat.TInt true (sbits s))
  | CArray _ _ => None
  | CTuple ts =>
      match (fix go (l : list cty) : option (list Pat.ty) :=
               match l with
               | [] => Some []
               | x :: r => match pat_ty x, go r with Some a, Some b => Some (a :: b) | _, _ => None end
               end) ts with
      | Some l => Some (Pat.TTuple l)
      | None => None
      end
  | CStruct n => Some (Pat.TStruct (intern n))
  | CEnum n => Some (Pat.TEnum (intern n))
  end.

Fixpoint omap {A B} (f : A -> option B) (l : list A) : option (list B) :=
  match l with
  | [] => Some []
  | x :: r => match f x, omap f r with Some a, Some b => Some (a :: b) | _, _ => None end
  end.

Definition pat_tyenv (D : defs) : option Pat.tyenv :=
  match omap (fun sd => match omap (fun ft => match pat_ty (snd ft) with
                                              | Some t => Some (intern (fst ft), t) | None => None end) (snd sd) with
                        | Some fs => Some (intern (fst sd), fs) | None => None end) (d_structs D),
        omap (fun ed => match omap (fun v => match snd v with
                                             | None => Some (intern (fst v), None)
                                             | Some ts => match omap pat_ty ts with
                                                          | Some l => Some (intern (fst v), Some l)
                                                          | None => None end
                                             end) (snd ed) with
                        | Some vs => Some (intern (fst ed), vs) | None => None end) (d_enums D) with
  | Some ss, Some es => Some (Pat.Build_tyenv ss es)
  | _, _ => None
  end.

Fixpoint pat_of (p : tpattern) : Pat.pattern :=
  match p with
  | TP pi _ =>
      match pi with
      | TPIdentifier _ => Pat.PVar 0
      | TPTrue => Pat.PBool true
      | TPFalse => Pat.PBool false
      | TPNumUnsigned n _ => Pat.PNum false (Z.of_N n)
      | TPNumSigned z _ => Pat.PNum true z
      | TPTuple ps => Pat.PTuple (map pat_of ps)
      | TPStruct n fs => Pat.PStruct (intern n) (map (fun f => (intern (fst f), pat_of (snd f))) fs) true
      | TPEnumUnit e v => Pat.PEnum (intern e) (intern v) None
      | TPEnumTuple e v ps => Pat.PEnum (intern e) (intern v) (Some (map pat_of ps))
      | TPUnsignedInclusiveRange lo hi _ => Pat.PRange false (Z.of_N lo) (Z.of_N hi)
      | TPSignedInclusiveRange lo hi _ => Pat.PRange true lo hi
      end
  end.

(* Ok(()) / PatternsAreNotExhaustive *)
Definition check_exhaustiveness (D : defs) (ps : list tpattern) (ty : cty) : cres unit :=
  match ps with
  | [p] => if irrefutable p then COk tt else
           match pat_tyenv D, pat_ty ty with
           | Some env, Some t =>
               match Useful.check_exhaustive (Useful.fuel_bound env 64 [t]) env t [pat_of p] with
               | Some [] => COk tt
               | Some _ => CErr E_PatternsAreNotExhaustive
               | None => CNoFuel
               end
           | _, _ => COutside
           end
  | _ =>
      match pat_tyenv D, pat_ty ty with
      | Some env, Some t =>
          match Useful.check_exhaustive (Useful.fuel_bound env 64 [t]) env t (map pat_of ps) with
          | Some [] => COk tt
          | Some _ => CErr E_PatternsAreNotExhaustive
          | None => CNoFuel
          end
      | _, _ => COutside
      end
  end.

(* ------------------------------------------------------------------ the checker proper *)

(* state-threading map over a list *)
Fixpoint mapM_st {S A B} (f : S -> A -> cres (B * S)) (st : S) (l : list A) : cres (list B * S) :=
  match l with
  | [] => COk ([], st)
  | x :: r =>
      do r1 <- f st x;
      do r2 <- mapM_st f (snd r1) r;
      COk (fst r1 :: fst r2, snd r2)
  end.

(* the first `find` of the ArrayLiteral / Match arms: the element type of a list whose first
   element is an unspecified number *)
Definition pick_elem_ty (first : cty) (tys : list cty) : cty :=
  let t1 :=
    if is_uU first then
      match find (fun t => negb (cty_eqb t first)) tys with Some t => t | None => first end
    else first in
  if is_sU t1 then
    match find (fun t => negb (cty_eqb t t1) && negb (is_uU t)) tys with Some t => t | None => t1 end
  else t1.

Definition s_join_iter : list N := Eval vm_compute in codes "join_iter"%string.
Definition s_underscore : list N := Eval vm_compute in codes "_"%string.

(* the accessor loop of VarAssign *)
Fixpoint accs_loop (ce : cstate -> xexpr -> cres (texpr * cstate)) (fuel : nat) (D : defs)
    (st : cstate) (elem_ty : cty) (accs : list xaccessor)
  : cres (list taccessor * cty * cstate) :=
  match accs with
  | [] => COk ([], elem_ty, st)
  | a :: r =>
      do r1 <-
        match a with
        | XAArray index =>
            let array_ty := elem_ty in
            do elem_ty' <- expect_array_type elem_ty;
            do ri <- ce st index;
            do index' <- coc_unsigned_deep fuel (fst ri) Usize;
            COk (TAArray array_ty index', elem_ty', snd ri)
        | XATuple index =>
            let tuple_ty := elem_ty in
            do value_types <- expect_tuple_type elem_ty;
            match nthN value_types index with
            | Some t => COk (TATuple tuple_ty index, t, st)
            | None => CErr E_TupleAccessOutOfBounds
            end
        | XAStruct field =>
            let struct_ty := elem_ty in
            do name <- expect_struct_type elem_ty;
            match assocL name (d_structs D) with
            | Some struct_def =>
                match assocL field struct_def with
                | Some field_ty => COk (TAStruct struct_ty field, field_ty, st)
                | None => CErr E_UnknownStructField
                end
            | None => CErr E_UnknownStruct
            end
        end;
      match r1 with
      | (ta, t', st') =>
          do r2 <- accs_loop ce fuel D st' t' r;
          match r2 with (tas, tf, st'') => COk (ta :: tas, tf, st'') end
      end
  end.

(* the field loop of StructLiteral *)
Fixpoint struct_lit_loop (ce : cstate -> xexpr -> cres (texpr * cstate)) (fuel : nat)
    (struct_def : list (list N * cty)) (seen : list (list N)) (st : cstate)
    (fields : list (list N * xexpr)) : cres (list (list N * texpr) * cstate) :=
  match fields with
  | [] => COk ([], st)
  | (field_name, field_value) :: r =>
      if memL field_name seen then CErr E_DuplicateStructField else
      match assocL field_name struct_def with
      | Some expected_type =>
          do r1 <- ce st field_value;
          do tf <- check_type fuel (fst r1) expected_type;
          do r2 <- struct_lit_loop ce fuel struct_def (field_name :: seen) (snd r1) r;
          COk ((field_name, tf) :: fst r2, snd r2)
      | None => CErr E_UnknownStructField
      end
  end.

Definition last_expr_ty (b : list tstmt) : cty :=
  match last (map Some b) None with
  | Some (TSExpr e) => ty_of e
  | _ => unit_cty
  end.

Fixpoint check_expr (fuel : nat) (D : defs) (st : cstate) (e : xexpr) {struct fuel}
  : cres (texpr * cstate) :=
  match fuel with
  | O => CNoFuel
  | S f =>
    match e with
    | XTrue => COk (TE TTrue CBool, st)
    | XFalse => COk (TE TFalse CBool, st)
    | XNumUnsigned n t => COk (TE (TNumUnsigned n t) (CUnsigned t), st)
    | XNumSigned z t => COk (TE (TNumSigned z t) (CSigned t), st)
    | XIdentifier s =>
        match env_get (st_env st) s with
        | Some (ty, _) => COk (TE (TIdentifier s) ty, st)
        | None =>
            match assocL s (d_consts D) with
            | Some ty => COk (TE (TIdentifier s) ty, st)
            | None => CErr E_UnknownIdentifier
            end
        end
    | XArrayLiteral fields =>
        do r <- mapM_st (check_expr f D) st fields;
        match fst r with
        | [] => CErr E_Panic
        | first :: _ =>
            let elem_ty := pick_elem_ty (ty_of first) (map ty_of (fst r)) in
            do fields' <- mapM (fun fld => check_type f fld elem_ty) (fst r);
            COk (TE (TArrayLiteral fields') (CArray elem_ty (lenN fields)), snd r)
        end
    | XArrayRepeatLiteral value size =>
        do r <- check_expr f D st value;
        COk (TE (TArrayRepeatLiteral (fst r) size) (CArray (ty_of (fst r)) size), snd r)
    | XArrayRepeatLiteralConst _ _ => COutside
    | XArrayAccess arr index =>
        do ra <- check_expr f D st arr;
        do ri <- check_expr f D (snd ra) index;
        do elem_ty <- expect_array_type (ty_of (fst ra));
        do index' <- coc_unsigned_deep f (fst ri) Usize;
        COk (TE (TArrayAccess (fst ra) index') elem_ty, snd ri)
    | XTupleLiteral values =>
        do r <- mapM_st (check_expr f D) st values;
        COk (TE (TTupleLiteral (fst r)) (CTuple (map ty_of (fst r))), snd r)
    | XTupleAccess tuple index =>
        do r <- check_expr f D st tuple;
        do value_types <- expect_tuple_type (ty_of (fst r));
        match nthN value_types index with
        | Some ty => COk (TE (TTupleAccess (fst r) index) ty, snd r)
        | None => CErr E_TupleAccessOutOfBounds
        end
    | XUnaryOp UoNeg x =>
        do r <- check_expr f D st x;
        do _ <- expect_signed_num_type (ty_of (fst r));
        COk (TE (TUnaryOp UoNeg (fst r)) (ty_of (fst r)), snd r)
    | XUnaryOp UoNot x =>
        do r <- check_expr f D st x;
        do _ <- expect_bool_or_num_type (ty_of (fst r));
        COk (TE (TUnaryOp UoNot (fst r)) (ty_of (fst r)), snd r)
    | XOp op x y =>
        do rx <- check_expr f D st x;
        do ry <- check_expr f D (snd rx) y;
        let x' := fst rx in
        let y' := fst ry in
        let st' := snd ry in
        match op with
        | BAdd | BSub | BMul | BDiv | BMod =>
            do u <- unify f x' y';
            match u with (x2, y2, ty) =>
              do _ <- expect_num_type ty; COk (TE (TOp op x2 y2) ty, st') end
        | BShortCircuitAnd | BShortCircuitOr =>
            match ty_of x', ty_of y' with
            | CBool, CBool => COk (TE (TOp op x' y') CBool, st')
            | _, _ => CErr E_UnexpectedType
            end
        | BBitAnd | BBitXor | BBitOr =>
            do u <- unify f x' y';
            match u with (x2, y2, ty) =>
              do _ <- expect_bool_or_num_type ty; COk (TE (TOp op x2 y2) ty, st') end
        | BGreaterThan | BLessThan =>
            do u <- unify f x' y';
            match u with (x2, y2, ty) =>
              do _ <- expect_num_type ty; COk (TE (TOp op x2 y2) CBool, st') end
        | BEq | BNotEq =>
            do u <- unify f x' y';
            match u with (x2, y2, _) => COk (TE (TOp op x2 y2) CBool, st') end
        | BShiftLeft | BShiftRight =>
            do _ <- expect_num_type (ty_of x');
            do y2 <- coc_unsigned_deep f y' U8;
            COk (TE (TOp op x' y2) (ty_of x'), st')
        end
    | XBlock stmts =>
        do r <- check_block f D (with_env st (env_push (st_env st))) stmts;
        match r with (body, ty, st') =>
          COk (TE (TBlock body) ty, with_env st' (env_pop (st_env st'))) end
    | XFnCall identifier args =>
        do st1 <-
          (if negb (match assocL identifier (st_typed st) with Some _ => true | None => false end) then
             match find (fun d => list_eqb (uf_name d) identifier) (d_fns D) with
             | Some fn_def =>
                 do r <- check_fn f D st fn_def;
                 COk (mkSt (st_env (snd r)) ((identifier, fst r) :: st_typed (snd r)) (st_checking (snd r)))
             | None => COk st
             end
           else COk st);
        match assocL identifier (st_typed st1), env_get (st_env st1) identifier with
        | Some fn_def, None =>
            do r <- mapM_st (check_expr f D) st1 args;
            if negb (lenN (tf_params fn_def) =? lenN (fst r)) then CErr E_WrongNumberOfArgs else
            do args' <- zipM (fun a p => check_type f a (snd p)) (fst r) (tf_params fn_def);
            COk (TE (TFnCall identifier args') (tf_ty fn_def), snd r)
        | None, _ => CErr E_UnknownIdentifier
        | Some _, Some _ => CErr E_NoTopLevelFn
        end
    | XJoin _ => COutside
    | XIf c a b =>
        do rc <- check_expr f D st c;
        do ra <- check_expr f D (snd rc) a;
        do rb <- check_expr f D (snd ra) b;
        do c' <- check_type f (fst rc) CBool;
        do u <- unify f (fst ra) (fst rb);
        match u with (a', b', ty) => COk (TE (TIf c' a' b') ty, snd rb) end
    | XCast ty x =>
        do ty' <- concrete_of D ty;
        do r <- check_expr f D st x;
        do _ <- expect_bool_or_num_type (ty_of (fst r));
        do _ <- expect_bool_or_num_type ty';
        COk (TE (TCast ty' (fst r)) ty', snd r)
    | XRange from to num_ty =>
        if (to <=? from) || (u32_max <? to - from) then CErr E_InvalidRange
        else COk (TE (TRange from to num_ty) (CArray (CUnsigned num_ty) (to - from)), st)
    | XEnumLiteral identifier variant_name variant =>
        match assocL identifier (d_enums D) with
        | Some enum_def =>
            match assocL variant_name enum_def with
            | Some types =>
                match variant, types with
                | None, None => COk (TE (TEnumLiteral identifier variant_name None) (CEnum identifier), st)
                | Some values, Some types =>
                    if negb (lenN values =? lenN types) then CErr E_UnexpectedEnumVariantArity else
                    do r <- mapM_st (check_expr f D) st values;
                    do exprs <- zipM (fun v t => check_type f v t) (fst r) types;
                    COk (TE (TEnumLiteral identifier variant_name (Some exprs)) (CEnum identifier), snd r)
                | None, Some _ => CErr E_ExpectedTupleVariantFoundUnitVariant
                | Some _, None => CErr E_ExpectedUnitVariantFoundTupleVariant
                end
            | None => CErr E_UnknownEnumVariant
            end
        | None => CErr E_UnknownEnum
        end
    | XMatch scrut clauses =>
        do rs <- check_expr f D st scrut;
        let ty := ty_of (fst rs) in
        match ty with
        | CArray _ _ => CErr E_TypeDoesNotSupportPatternMatching
        | _ =>
            do rc <- mapM_st (fun st (pc : upattern * xexpr) =>
                        do rp <- check_pattern D (env_push (st_env st)) (fst pc) ty;
                        do re <- check_expr f D (with_env st (snd rp)) (snd pc);
                        COk ((fst rp, fst re), with_env (snd re) (env_pop (st_env (snd re)))))
                      (snd rs) clauses;
            match fst rc with
            | [] => CErr E_Panic
            | (_, first) :: _ =>
                let ret_ty := pick_elem_ty (ty_of first) (map (fun pc => ty_of (snd pc)) (fst rc)) in
                do clauses' <- mapM (fun pc : tpattern * texpr =>
                                 if negb (cty_eqb ret_ty (ty_of (snd pc))) then
                                   match ret_ty with
                                   | CUnsigned expected =>
                                       do x <- coc_unsigned_deep f (snd pc) expected; COk (fst pc, x)
                                   | CSigned expected =>
                                       do x <- coc_signed_deep f (snd pc) expected; COk (fst pc, x)
                                   | _ => CErr E_UnexpectedType
                                   end
                                 else COk pc) (fst rc);
                do _ <- check_exhaustiveness D (map fst clauses') ty;
                COk (TE (TMatch (fst rs) clauses') ret_ty, snd rc)
            end
        end
    | XStructLiteral name fields =>
        match assocL name (d_structs D) with
        | Some struct_def =>
            do r <- struct_lit_loop (check_expr f D) f struct_def [] st fields;
            if missing_field struct_def fields then CErr E_MissingStructField else
            COk (TE (TStructLiteral name (fst r)) (CStruct name), snd r)
        | None => CErr E_UnknownStruct
        end
    | XStructAccess struct_expr field =>
        do r <- check_expr f D st struct_expr;
        do name <- expect_struct_type (ty_of (fst r));
        match assocL name (d_structs D) with
        | Some struct_def =>
            match assocL field struct_def with
            | Some field_ty => COk (TE (TStructAccess (fst r) field) field_ty, snd r)
            | None => CErr E_UnknownStructField
            end
        | None => CErr E_UnknownStruct
        end
    end
  end

(* the statement loops (`for stmt in block`): one fuel level *)
with check_stmts (fuel : nat) (D : defs) (st : cstate) (b : list xstmt) {struct fuel}
  : cres (list tstmt * cstate) :=
  match fuel with
  | O => CNoFuel
  | S f => mapM_st (check_stmt f D) st b
  end

(* type_check_block *)
with check_block (fuel : nat) (D : defs) (st : cstate) (b : list xstmt) {struct fuel}
  : cres (list tstmt * cty * cstate) :=
  match fuel with
  | O => CNoFuel
  | S f =>
      do r <- mapM_st (check_stmt f D) st b;
      COk (fst r, last_expr_ty (fst r), snd r)
  end

with check_stmt (fuel : nat) (D : defs) (st : cstate) (s : xstmt) {struct fuel}
  : cres (tstmt * cstate) :=
  match fuel with
  | O => CNoFuel
  | S f =>
    match s with
    | XSLet pattern ty binding =>
        do r <- check_expr f D st binding;
        do binding' <-
          match ty with
          | Some ty => do ty' <- concrete_of D ty; check_type f (fst r) ty'
          | None => COk (fst r)
          end;
        do rp <- check_pattern D (st_env (snd r)) pattern (ty_of binding');
        do _ <- check_exhaustiveness D [fst rp] (ty_of binding');
        COk (TSLet (fst rp) binding', with_env (snd r) (snd rp))
    | XSLetMut identifier ty binding =>
        do r <- check_expr f D st binding;
        do binding' <-
          match ty with
          | Some ty => do ty' <- concrete_of D ty; check_type f (fst r) ty'
          | None => COk (fst r)
          end;
        do binding'' <- constrain_to_i32 f binding';
        COk (TSLetMut identifier binding'',
             with_env (snd r) (env_let (st_env (snd r)) identifier (ty_of binding'') true))
    | XSExpr e =>
        do r <- check_expr f D st e;
        COk (TSExpr (fst r), snd r)
    | XSVarAssign identifier accessors value =>
        match env_get (st_env st) identifier with
        | Some (elem_ty, true) =>
            do ra <- accs_loop (check_expr f D) f D st elem_ty accessors;
            match ra with (typed_accessors, elem_ty', st1) =>
              do rv <- check_expr f D st1 value;
              do value' <- check_type f (fst rv) elem_ty';
              COk (TSVarAssign identifier typed_accessors value', snd rv)
            end
        | Some (_, false) => CErr E_IdentifierNotDeclaredAsMutable
        | None => CErr E_UnknownIdentifier
        end
    | XSForEach pattern binding body =>
        let is_join_iter :=
          match binding with XFnCall id _ => list_eqb id s_join_iter | _ => false end in
        if is_join_iter then COutside else
        do r <- check_expr f D st binding;
        do elem_ty <- expect_array_type (ty_of (fst r));
        do rp <- check_pattern D (env_push (st_env (snd r))) pattern elem_ty;
        do _ <- check_exhaustiveness D [fst rp] elem_ty;
        do rb <- check_stmts f D (with_env (snd r) (snd rp)) body;
        COk (TSForEach (fst rp) (fst r) (fst rb), with_env (snd rb) (env_pop (st_env (snd rb))))
    end
  end

(* UntypedFnDef::type_check; the caller's Env is untouched (the callee has its own) *)
with check_fn (fuel : nat) (D : defs) (st : cstate) (fd : ufndef) {struct fuel}
  : cres (tfndef * cstate) :=
  match fuel with
  | O => CNoFuel
  | S f =>
      if memL (uf_name fd) (st_checking st) then CErr E_RecursiveFnDef else
      let caller_env := st_env st in
      do rp <- (fix go (seen : list (list N)) (ps : list uparam) (g : cenv)
                  : cres (list (bool * list N * cty) * cenv) :=
                  match ps with
                  | [] => COk ([], g)
                  | p :: r =>
                      if memL (upa_name p) seen then CErr E_DuplicateFnParam else
                      do ty <- concrete_of D (upa_ty p);
                      do r2 <- go (upa_name p :: seen) r (env_let g (upa_name p) ty (upa_mut p));
                      COk ((upa_mut p, upa_name p, ty) :: fst r2, snd r2)
                  end) [] (uf_params fd) (env_push env_new);
      do rb <- check_block f D (mkSt (snd rp) (st_typed st) (uf_name fd :: st_checking st)) (uf_body fd);
      match rb with (body, _, st1) =>
        let st2 := mkSt caller_env (st_typed st1) (st_checking st) in
        do ret_ty <- concrete_of D (uf_ty fd);
        do body' <-
          match last (map Some body) None with
          | Some (TSExpr _) => map_last_expr (fun ret_expr => check_type f ret_expr ret_ty) body
          | _ => if negb (cty_eqb ret_ty unit_cty) then CErr E_UnexpectedType else COk body
          end;
        COk (mkTFn (uf_pub fd) (uf_name fd) (fst rp) ret_ty body', st2)
      end
  end.

(* ------------------------------------------------------------------ UntypedProgram::type_check *)

(* contains_type_def; the result and the visited set *)
Fixpoint contains_type_def (fuel : nat)
    (structs : list (list N * list (list N * cty)))
    (enums : list (list N * list (list N * option (list cty))))
    (target : list N) (visited : list (list N)) (ty : cty) {struct fuel}
  : cres (bool * list (list N)) :=
  match fuel with
  | O => CNoFuel
  | S f =>
      let any_loop :=
        fix go (tys : list cty) (visited : list (list N)) : cres (bool * list (list N)) :=
          match tys with
          | [] => COk (false, visited)
          | t :: r =>
              do r1 <- contains_type_def f structs enums target visited t;
              if fst r1 then COk r1 else go r (snd r1)
          end in
      match ty with
      | CStruct name | CEnum name =>
          if memL name visited then COk (list_eqb name target, visited) else
          let field_types :=
            match assocL name structs with
            | Some def => map snd def
            | None =>
                match assocL name enums with
                | Some vs => flat_map (fun v => match snd v with Some ts => ts | None => [] end) vs
                | None => []
                end
            end in
          any_loop field_types (name :: visited)
      | CTuple fields => any_loop fields visited
      | CArray elem _ => contains_type_def f structs enums target visited elem
      | _ => COk (false, visited)
      end
  end.

Definition variant_name (v : uvariant) : list N :=
  match v with UVUnit n => n | UVTuple n _ => n end.

Definition check_struct_def (sn en : list (list N)) (sd : ustructdef)
  : cres (list N * list (list N * cty)) :=
  do fields <- (fix go (seen : list (list N)) (fs : list (list N * utype)) : cres (list (list N * cty)) :=
                  match fs with
                  | [] => COk []
                  | (name, ty) :: r =>
                      if memL name seen then CErr E_DuplicateStructField else
                      do ty' <- as_concrete_type sn en ty;
                      do r' <- go (name :: seen) r;
                      COk ((name, ty') :: r')
                  end) [] (us_fields sd);
  COk (us_name sd, fields).

Definition check_enum_def (sn en : list (list N)) (ed : uenumdef)
  : cres (list N * list (list N * option (list cty))) :=
  do variants <- (fix go (seen : list (list N)) (vs : list uvariant)
                    : cres (list (list N * option (list cty))) :=
                    match vs with
                    | [] => COk []
                    | v :: r =>
                        if memL (variant_name v) seen then CErr E_DuplicateEnumVariant else
                        do v' <- match v with
                                 | UVUnit n => COk (n, None)
                                 | UVTuple n tys => do tys' <- mapM (as_concrete_type sn en) tys; COk (n, Some tys')
                                 end;
                        do r' <- go (variant_name v :: seen) r;
                        COk (v' :: r')
                    end) [] (ue_variants ed);
  COk (ue_name ed, variants).

(* the const loop: literal consts (and names of earlier consts) only *)
Definition const_lit (value : uconstexpr) (ty : cty) (done : list (list N * texpr)) : cres texpr :=
  match value with
  | CETrue => if cty_eqb ty CBool then COk (TE TTrue ty) else CErr E_UnexpectedType
  | CEFalse => if cty_eqb ty CBool then COk (TE TFalse ty) else CErr E_UnexpectedType
  | CENumUnsigned n t =>
      if cty_eqb ty (CUnsigned t) then COk (TE (TNumUnsigned n t) ty) else CErr E_UnexpectedType
  | CENumSigned z t =>
      if cty_eqb ty (CSigned t) then COk (TE (TNumSigned z t) ty) else CErr E_UnexpectedType
  | CEIdent s =>
      match assocL s done with
      | Some def => if cty_eqb ty (ty_of def) then COutside else CErr E_UnexpectedType
      | None => CErr E_UnknownIdentifier
      end
  | CEExternalValue _ _ => COutside
  | CEMax _ | CEMin _ | CEAdd _ _ | CESub _ _ =>
      match ty with CUnsigned _ | CSigned _ => COutside | _ => CErr E_ExpectedNumberType end
  end.

Fixpoint check_consts (cs : list uconstdef) (done : list (list N * texpr))
  : cres (list (list N * texpr)) :=
  match cs with
  | [] => COk (rev done)
  | c :: r =>
      (* `const_def.ty` is compared as written: a named type is never Bool / Unsigned / Signed *)
      match uc_ty c with
      | UTBool | UTUnsigned _ | UTSigned _ =>
          let ty := match uc_ty c with
                    | UTBool => CBool | UTUnsigned t => CUnsigned t | UTSigned t => CSigned t
                    | _ => CBool end in
          do v <- const_lit (uc_value c) ty done;
          check_consts r ((uc_name c, v) :: done)
      | _ => CErr E_ExpectedBoolOrNumberType
      end
  end.

Definition check_program_t (fuel : nat) (P : uprogram) : cres tprogram :=
  let sn := map us_name (up_structs P) in
  let en := map ue_name (up_enums P) in
  do consts <- check_consts (up_consts P) [];
  do structs <- mapM (check_struct_def sn en) (up_structs P);
  do enums <- mapM (check_enum_def sn en) (up_enums P);
  do _ <- mapM (fun name =>
            let ty := match assocL name structs with Some _ => CStruct name | None => CEnum name end in
            do r <- contains_type_def fuel structs enums name [] ty;
            if fst r then CErr E_RecursiveTypeDef else COk tt)
          (map fst structs ++ map fst enums);
  let D := mkDefs (map (fun c => (fst c, ty_of (snd c))) consts) structs enums (up_fns P) sn en in
  do st <- (fix go (fns : list ufndef) (st : cstate) : cres cstate :=
              match fns with
              | [] => COk st
              | fd :: r =>
                  if uf_pub fd then
                    match uf_params fd with
                    | [] => CErr E_PubFnWithoutParams
                    | _ =>
                        do r1 <- check_fn fuel D st fd;
                        (* `checked_fn_defs.typed.insert(fn_name, typed_fn)`: a HashMap insert REPLACES
                           the entry a call from an earlier pub fn may have left *)
                        go r (mkSt (st_env (snd r1))
                                   ((uf_name fd, fst r1) ::
                                    filter (fun nd => negb (list_eqb (fst nd) (uf_name fd))) (st_typed (snd r1)))
                                   (st_checking (snd r1)))
                    end
                  else go r st
              end) (up_fns P) (mkSt env_new [] []);
  if existsb (fun fd => negb (uf_pub fd) &&
                        negb (match assocL (uf_name fd) (st_typed st) with Some _ => true | None => false end))
             (up_fns P)
  then CErr E_UnusedFn
  else COk (mkTProgram consts structs enums (st_typed st) (up_main P)).

(* ------------------------------------------------------------------ the exporter (harness/src/prog.rs) *)

Definition m0 : Ast.meta := Ast.mkMeta 0 0 0 0.

Fixpoint export_ty (t : cty) : Ast.ty :=
  match t with
  | CBool => Ast.TBool
  | CUnsigned u => Ast.TInt false (ubits u)
  | CSigned s => Ast.TInt true (sbits s)
  | CArray e n => Ast.TArr (export_ty e) n
  | CTuple ts => Ast.TTup (map export_ty ts)
  | CStruct n => Ast.TStruct (intern n)
  | CEnum n => Ast.TEnum (intern n)
  end.

Section Export.
Variable enums : list (list N * list (list N * option (list cty))).

Fixpoint index_of {A} (k : list N) (l : list (list N * A)) (i : N) : N :=
  match l with
  | [] => i
  | (k', _) :: r => if list_eqb k k' then i else index_of k r (i + 1)
  end.

Definition variant_index (e v : list N) : N :=
  match assocL e enums with Some vs => index_of v vs 0 | None => 0 end.

Fixpoint export_pattern (p : tpattern) : Ast.pattern :=
  match p with
  | TP pi t =>
      Ast.Pat
        (match pi with
         | TPIdentifier s => Ast.PId (intern s)
         | TPTrue => Ast.PTrue
         | TPFalse => Ast.PFalse
         | TPNumUnsigned n _ => Ast.PNumU n
         | TPNumSigned z _ => Ast.PNumS z
         | TPTuple ps => Ast.PTup (map export_pattern ps)
         | TPStruct n fs => Ast.PStruct (intern n) false (map (fun f => (intern (fst f), export_pattern (snd f))) fs)
         | TPEnumUnit e v => Ast.PEnumUnit (intern e) (variant_index e v)
         | TPEnumTuple e v ps => Ast.PEnumTup (intern e) (variant_index e v) (map export_pattern ps)
         | TPUnsignedInclusiveRange lo hi _ => Ast.PURange lo hi
         | TPSignedInclusiveRange lo hi _ => Ast.PSRange lo hi
         end) m0 (export_ty t)
  end.

Definition export_op (o : bin_op) : Ast.binop :=
  match o with
  | BAdd => Ast.OAdd | BSub => Ast.OSub | BMul => Ast.OMul | BDiv => Ast.ODiv | BMod => Ast.OMod
  | BBitAnd => Ast.OBitAnd | BBitXor => Ast.OBitXor | BBitOr => Ast.OBitOr
  | BGreaterThan => Ast.OGt | BLessThan => Ast.OLt | BEq => Ast.OEq | BNotEq => Ast.ONe
  | BShiftLeft => Ast.OShl | BShiftRight => Ast.OShr
  | BShortCircuitAnd => Ast.OLAnd | BShortCircuitOr => Ast.OLOr
  end.

Fixpoint export_expr (e : texpr) : Ast.expr :=
  match e with
  | TE ei t =>
      Ast.Ex
        (match ei with
         | TTrue => Ast.ETrue
         | TFalse => Ast.EFalse
         | TNumUnsigned n u => Ast.ENumU n (ubits u)
         | TNumSigned z s => Ast.ENumS z (sbits s)
         | TIdentifier s => Ast.EId (intern s)
         | TArrayLiteral es => Ast.EArrLit (map export_expr es)
         | TArrayRepeatLiteral x n => Ast.EArrRep (export_expr x) n
         | TArrayAccess a i => Ast.EIdx (export_expr a) (export_expr i)
         | TTupleLiteral es => Ast.ETupLit (map export_expr es)
         | TTupleAccess x i => Ast.ETupAcc (export_expr x) i
         | TStructAccess x fld => Ast.EFld (export_expr x) (intern fld)
         | TStructLiteral n fs => Ast.EStructLit (intern n) (map (fun f => (intern (fst f), export_expr (snd f))) fs)
         | TEnumLiteral en v args =>
             Ast.EEnumLit (intern en) (variant_index en v)
               (match args with Some es => map export_expr es | None => [] end)
         | TMatch s arms => Ast.EMatch (export_expr s) (map (fun a => (export_pattern (fst a), export_expr (snd a))) arms)
         | TUnaryOp UoNeg x => Ast.ENeg (export_expr x)
         | TUnaryOp UoNot x => Ast.ENot (export_expr x)
         | TOp o x y => Ast.EOp (export_op o) (export_expr x) (export_expr y)
         | TBlock b => Ast.EBlock (map export_stmt b)
         | TFnCall fn args => Ast.ECall (intern fn) (map export_expr args)
         | TIf c a b => Ast.EIf (export_expr c) (export_expr a) (export_expr b)
         | TCast ty x => Ast.ECast (export_ty ty) (export_expr x)
         | TRange lo hi u => Ast.ERange lo hi (ubits u)
         end) m0 (export_ty t)
  end
with export_stmt (s : tstmt) : Ast.stmt :=
  Ast.St
    (match s with
     | TSLet p e => Ast.SLet (export_pattern p) (export_expr e)
     | TSLetMut x e => Ast.SLetMut (intern x) (export_expr e)
     | TSVarAssign x accs e => Ast.SAssign (intern x) (map export_accessor accs) (export_expr e)
     | TSForEach p e body => Ast.SFor (export_pattern p) (export_expr e) (map export_stmt body)
     | TSExpr e => Ast.SExpr (export_expr e)
     end) m0
with export_accessor (a : taccessor) : Ast.accessor :=
  match a with
  | TAArray t i => Ast.AIdx (export_ty t) (export_expr i)
  | TATuple t i => Ast.ATup (export_ty t) i
  | TAStruct t fld => Ast.AFld (export_ty t) (intern fld)
  end.

Definition export_fn (d : tfndef) : Ast.fndef :=
  Ast.mkFn (intern (tf_name d))
           (map (fun p => (intern (snd (fst p)), export_ty (snd p))) (tf_params d))
           (export_ty (tf_ty d))
           (map export_stmt (tf_body d)).
End Export.

(* structs / enums / fns sorted by name (String order = byte order), consts in source order *)
Definition export_program (P : tprogram) : Ast.program :=
  Ast.mkProgram
    (map (fun sd => (intern (fst sd), map (fun ft => (intern (fst ft), export_ty (snd ft))) (snd sd)))
         (sort_fields (tp_structs P)))
    (map (fun ed => (intern (fst ed),
                     map (fun v => match snd v with Some ts => map export_ty ts | None => [] end) (snd ed)))
         (sort_fields (tp_enums P)))
    (map (fun nd => export_fn (tp_enums P) (snd nd)) (sort_fields (tp_fns P)))
    (map (fun c => (intern (fst c), export_expr (tp_enums P) (snd c))) (tp_consts P))
    (intern (tp_main P)).

Definition check_program (fuel : nat) (P : uprogram) : cres Ast.program :=
  do T <- check_program_t fuel P; COk (export_program T).

End WithIntern.
