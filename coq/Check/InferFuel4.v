(* C07 for the type checker, part 4: "the checker terminates" with COMPUTABLE premises.
   (a) programs that never consult the exhaustiveness oracle: no `match`, and every `let` / `for`
       pattern syntactically irrefutable (identifiers / tuples / struct patterns of those):
       [no_oracle P = true -> check_fuel_needed P <= fuel -> check_program_t intern fuel P <> CNoFuel],
       unconditionally (no hypothesis on the oracle, on type depths, or on intern). *)
From Coq Require Import Lia Bool.
From GV Require Import Base.Util Front.Scan Front.ParseExpr Check.UAst Check.Infer Check.InferProofs
  Check.InferTotal Check.InferFuel Check.InferFuel2 Check.InferFuel3.
From GV Require Exhaust.Pat Exhaust.Useful Exhaust.UsefulProofs.
Local Open Scope N_scope.

(* syntactically irrefutable patterns *)
Fixpoint irref_p (p : upattern) : bool :=
  match p with
  | PIdentifier _ => true
  | PTuple ps => forallb irref_p ps
  | PStruct _ fs | PStructIgnoreRemaining _ fs => forallb (fun f => irref_p (snd f)) fs
  | _ => false
  end.

(* no match; let / for patterns irrefutable *)
Fixpoint no_e (e : xexpr) : bool :=
  match e with
  | XMatch _ _ => false
  | XArrayLiteral es | XTupleLiteral es | XFnCall _ es | XEnumLiteral _ _ (Some es) | XJoin es => forallb no_e es
  | XArrayRepeatLiteral e _ | XTupleAccess e _ | XStructAccess e _ | XUnaryOp _ e | XCast _ e => no_e e
  | XArrayAccess a i => no_e a && no_e i
  | XStructLiteral _ fs => forallb (fun f => no_e (snd f)) fs
  | XOp _ l r => no_e l && no_e r
  | XBlock b => forallb no_s b
  | XIf c a b => no_e c && no_e a && no_e b
  | _ => true
  end
with no_s (s : xstmt) : bool :=
  match s with
  | XSLet p _ e => irref_p p && no_e e
  | XSLetMut _ _ e | XSExpr e => no_e e
  | XSVarAssign _ accs e => forallb no_a accs && no_e e
  | XSForEach p e body => irref_p p && no_e e && forallb no_s body
  end
with no_a (a : xaccessor) : bool :=
  match a with XAArray i => no_e i | _ => true end.

Definition no_oracle (P : uprogram) : bool := forallb (fun fd => forallb no_s (uf_body fd)) (up_fns P).

(* an irrefutable upattern yields an irrefutable tpattern *)
Lemma irref_fields_loop D fs :
  Forall (fun p => forall g ty tp g', irref_p p = true -> check_pattern D g p ty = COk (tp, g') -> irrefutable tp = true) fs ->
  forallb irref_p fs = true ->
  forall ts g r g',
    (fix go (fs : list upattern) (ts : list cty) (g : cenv) : cres (list tpattern * cenv) :=
       match fs, ts with
       | fp :: fr, t :: tr =>
           do r1 <- check_pattern D g fp t; do r2 <- go fr tr (snd r1); COk (fst r1 :: fst r2, snd r2)
       | _, _ => COk ([], g)
       end) fs ts g = COk (r, g') ->
  forallb irrefutable r = true.
Proof.
  induction 1 as [|q fs Hq Hfs IH]; intros Hn ts g r g' H.
  - inversion H; subst. reflexivity.
  - destruct ts as [|t ts]; [inversion H; subst; reflexivity|].
    cbn [forallb] in Hn. apply andb_true_iff in Hn. destruct Hn as [Hn1 Hn2].
    apply cbind_ok in H. destruct H as [[p1 g1] [H1 H]]. apply cbind_ok in H. destruct H as [[r2 g2] [H2 H]].
    cbn [fst snd] in *. inversion H; subst; clear H. cbn [forallb]. rewrite (Hq _ _ _ _ Hn1 H1). exact (IH Hn2 _ _ _ _ H2).
Qed.

Lemma irref_struct_loop D (sdef : list (list N * cty)) fs :
  Forall (fun f : list N * upattern => forall g ty tp g', irref_p (snd f) = true -> check_pattern D g (snd f) ty = COk (tp, g') -> irrefutable tp = true) fs ->
  forallb (fun f => irref_p (snd f)) fs = true ->
  forall seen g r g',
    (fix go (seen : list (list N)) (fs : list (list N * upattern)) (g : cenv) : cres (list (list N * tpattern) * cenv) :=
       match fs with
       | [] => COk ([], g)
       | (field_name, field_value) :: fr =>
           if memL field_name seen then CErr E_PatternDoesNotMatchType else
           match assocL field_name sdef with
           | Some field_type =>
               do r1 <- check_pattern D g field_value field_type;
               do r2 <- go (field_name :: seen) fr (snd r1);
               COk ((field_name, fst r1) :: fst r2, snd r2)
           | None => CErr E_UnknownStructField
           end
       end) seen fs g = COk (r, g') ->
  forallb (fun f => irrefutable (snd f)) r = true.
Proof.
  induction 1 as [|[fname q] fs Hq Hfs IH]; intros Hn seen g r g' H.
  - inversion H; subst. reflexivity.
  - cbn [forallb snd] in Hn. apply andb_true_iff in Hn. destruct Hn as [Hn1 Hn2].
    destruct (memL fname seen); [discriminate|].
    destruct (assocL fname sdef) as [ft|]; [|discriminate].
    apply cbind_ok in H. destruct H as [[p1 g1] [H1 H]]. apply cbind_ok in H. destruct H as [[r2 g2] [H2 H]].
    cbn [fst snd] in *. inversion H; subst; clear H. cbn [forallb snd]. rewrite (Hq _ _ _ _ Hn1 H1). exact (IH Hn2 _ _ _ _ H2).
Qed.

Lemma irref_check D : forall p g ty tp g', irref_p p = true -> check_pattern D g p ty = COk (tp, g') -> irrefutable tp = true.
Proof.
  induction p using upattern_ind'; intros g ty tp g' Hn HH; try discriminate Hn; cbn [check_pattern] in HH.
  - inversion HH; reflexivity.
  - cbn [irref_p] in Hn. apply cbind_ok in HH. destruct HH as [fts [_ HH]].
    destruct (negb _); [discriminate|]. apply cbind_ok in HH. destruct HH as [[r g2] [Hl HH]]. inversion HH; subst; clear HH.
    cbn [fst irrefutable]. exact (irref_fields_loop D ps H Hn _ _ _ _ Hl).
  - cbn [irref_p] in Hn. apply cbind_ok in HH. destruct HH as [sdn [_ HH]].
    destruct (negb _); [discriminate|]. destruct (assocL n (d_structs D)) as [sdef|]; [|discriminate].
    apply cbind_ok in HH. destruct HH as [[r g2] [Hl HH]].
    match type of HH with (if ?c then _ else _) = _ => destruct c; [discriminate|] end.
    inversion HH; subst; clear HH. cbn [fst irrefutable]. exact (irref_struct_loop D sdef _ H Hn _ _ _ _ Hl).
  - cbn [irref_p] in Hn. apply cbind_ok in HH. destruct HH as [sdn [_ HH]].
    destruct (negb _); [discriminate|]. destruct (assocL n (d_structs D)) as [sdef|]; [|discriminate].
    apply cbind_ok in HH. destruct HH as [[r g2] [Hl HH]].
    match type of HH with (if ?c then _ else _) = _ => destruct c; [discriminate|] end.
    inversion HH; subst; clear HH. cbn [fst irrefutable]. exact (irref_struct_loop D sdef _ H Hn _ _ _ _ Hl).
Qed.

(* the oracle is not consulted for a single irrefutable pattern *)
Lemma exh_irref intern D tp ty : irrefutable tp = true -> nf (check_exhaustiveness intern D [tp] ty).
Proof. intro H. unfold check_exhaustiveness. rewrite H. reflexivity. Qed.

Local Open Scope nat_scope.
Section Adequacy4.
Variable intern : list N -> N.
Variable D : defs.
(* every function body is in the fragment *)
Hypothesis Hfns : forall fd, In fd (d_fns D) -> forallb no_s (uf_body fd) = true.
Notation M := (dmax (d_fns D)).
Notation check_expr := (check_expr intern).
Notation check_stmt := (check_stmt intern).
Notation check_stmts := (check_stmts intern).
Notation check_block := (check_block intern).
Notation check_fn := (check_fn intern).
Definition GE (f : nat) : Prop := forall c0 k st e, no_e e = true -> st_checking st = c0 -> cnt (d_fns D) c0 <= k -> xd e + k * M <= f ->
  post (chk_is c0 (fun te => td te <= f)) (check_expr f D st e).
Definition GSS (f : nat) : Prop := forall c0 k st b, forallb no_s b = true -> st_checking st = c0 -> cnt (d_fns D) c0 <= k -> bdx b + k * M <= f ->
  post (chk_is c0 (Forall (fun s => tsd s <= f))) (check_stmts f D st b).
Definition GB (f : nat) : Prop := forall c0 k st b, forallb no_s b = true -> st_checking st = c0 -> cnt (d_fns D) c0 <= k -> bdx b + k * M <= f ->
  post (fun r => st_checking (snd r) = c0 /\ Forall (fun s => tsd s <= f) (fst (fst r))) (check_block f D st b).
Definition GS (f : nat) : Prop := forall c0 k st s, no_s s = true -> st_checking st = c0 -> cnt (d_fns D) c0 <= k -> sdx s + k * M <= f ->
  post (chk_is c0 (fun ts => tsd ts <= f)) (check_stmt f D st s).
Definition GF (f : nat) : Prop := forall c0 k st fd, st_checking st = c0 -> cnt (d_fns D) c0 <= k -> In fd (d_fns D) ->
  1 + k * M <= f -> post (fun r => st_checking (snd r) = c0) (check_fn f D st fd).

Lemma fuel_stmts4 f : GS f -> GSS (S f) /\ GB (S f).
Proof.
  intro HS. split; intros c0 k st b Hn Hst Hk Hf; cbn [Infer.check_stmts Infer.check_block]; unfold bdx in Hf.
  - eapply post_weaken; [apply (post_mapM_st _ c0 (fun s => tsd s <= f)); [|exact Hst]|].
    + intros st0 x Hx Hst0. eapply HS; [exact (proj1 (forallb_forall _ _) Hn x Hx)|exact Hst0|exact Hk|]. pose proof (in_list_max sdx b x Hx). lia.
    + intros r [H1 H2]. split; [exact H1|]. eapply Forall_impl; [|exact H2]. intros a Ha. cbv beta in *. lia.
  - eapply post_bind; [apply (post_mapM_st _ c0 (fun s => tsd s <= f)); [|exact Hst]|].
    + intros st0 x Hx Hst0. eapply HS; [exact (proj1 (forallb_forall _ _) Hn x Hx)|exact Hst0|exact Hk|]. pose proof (in_list_max sdx b x Hx). lia.
    + intros r [H1 H2]. cbn [post fst snd]. split; [exact H1|]. eapply Forall_impl; [|exact H2]. intros a Ha. cbv beta in *. lia.
Qed.

Ltac frag :=
  cbn [no_e no_s no_a] in *;
  repeat match goal with H : _ && _ = true |- _ => apply andb_true_iff in H; destruct H end;
  first [ assumption
        | match goal with H : forallb ?g ?l = true, Hin : In ?x ?l |- _ => exact (proj1 (forallb_forall g l) H x Hin) end ].

Ltac refold_goal :=
  fold (Infer.check_expr intern) (Infer.check_stmts intern) (Infer.check_block intern)
       (Infer.check_fn intern) (Infer.check_stmt intern).

Ltac destr_and := cbv beta in *; unfold chk_is in *; cbn [fst snd st_checking with_env] in *;
  repeat match goal with H : _ /\ _ |- _ => destruct H end.



(* side conditions: fuel bounds *)
Ltac bound :=
  cbn [xd sdx adx] in *; unfold bdx in *;
  repeat match goal with
  | Hin : In ?x ?l |- _ =>
      match goal with
      | _ : context [list_max (map ?g l)] |- _ =>
          lazymatch goal with
          | _ : g x <= list_max (map g l) |- _ => fail
          | _ => pose proof (in_list_max g l x Hin)
          end
      end
  end;
  cbv beta in *; cbn [xd sdx adx fst snd] in *; lia.

Ltac chk := first [eassumption | cbn [st_checking with_env]; eassumption | reflexivity].




Ltac nf_tac :=
  apply post_nf;
  first [ apply np_concrete_of | apply np_expect_array_type | apply np_expect_struct_type | apply np_expect_tuple_type
        | apply np_expect_num_type | apply np_expect_signed_num_type | apply np_expect_bool_or_num_type
        | apply np_check_pattern ].

Ltac sub_post IHe IHss IHb IHf c0 k f :=
  lazymatch goal with
  | |- post _ (Infer.check_expr _ _ _ _ _) => eapply (IHe c0 k); [frag | chk | eassumption | bound]
  | |- post _ (mapM_st (Infer.check_expr _ _ _) _ _) =>
      eapply (post_mapM_st _ c0 (fun te => td te <= f));
        [intros ? ? ? ?; eapply (IHe c0 k); [frag | eassumption | eassumption | bound] | chk]
  | |- post _ (Infer.check_block _ _ _ _ _) => eapply (IHb c0 k); [frag | chk | eassumption | bound]
  | |- post _ (Infer.check_stmts _ _ _ _ _) => eapply (IHss c0 k); [frag | chk | eassumption | bound]
  | |- post _ (check_type _ _ _) => eapply (post_check_type f f); [first [assumption | lia] | lia]
  | |- post _ (constrain_to_i32 _ _) => eapply (post_constrain_to_i32 f f); [first [assumption | lia] | lia]
  | |- post _ (mapM _ _) =>
      eapply (post_mapM _ (fun e => td e <= f) (fun e => td e <= f));
        [intros ? ?; eapply (post_check_type f f); [assumption | lia] | assumption]
  | |- post _ (zipM _ _ _) =>
      eapply (post_zipM _ (fun e => td e <= f));
        [intros ? ? ?; eapply (post_check_type f f); [assumption | lia] | assumption]
  | |- post _ (accs_loop _ _ _ _ _ _) =>
      eapply (post_accs_loop D _ f c0);
        [intros ? ? ? ?; eapply (IHe c0 k); [frag | eassumption | eassumption | bound] | chk]
  | |- post _ (struct_lit_loop _ _ _ _ _ _) =>
      eapply (post_struct_lit_loop _ f c0);
        [intros ? ? ? ?; eapply (IHe c0 k); [frag | eassumption | eassumption | bound] | chk]
  | |- post _ (unify _ _ _) => eapply (post_unify f f); [first [assumption | lia] | first [assumption | lia] | lia]
  | |- post _ (coc_unsigned_deep _ _ _) => eapply (post_coc_u_deep f f); [first [assumption | lia] | lia]
  | |- post _ (coc_signed_deep _ _ _) => eapply (post_coc_s_deep f f); [first [assumption | lia] | lia]
  | |- post _ (check_or_constrain_unsigned _ _) => apply post_coc_u
  | |- post _ (check_or_constrain_signed _ _) => apply post_coc_s
  | |- post _ (check_pattern _ _ _ _) => apply post_self; apply np_check_pattern
  | |- post _ (check_exhaustiveness _ _ [fst ?a] _) =>
      apply post_nf; apply exh_irref; destruct a; cbn [fst]; eapply irref_check; [|eassumption]; frag
  | |- _ => nf_tac
  end.

Ltac pg tac :=
  repeat (cbv beta zeta; lazymatch goal with
  | |- post _ (COk _) => cbn [post fst snd]; unfold chk_is; cbn [fst snd st_checking with_env]
  | |- post _ (CErr _) => exact I
  | |- post _ COutside => exact I
  | |- post _ (cbind _ _) => eapply post_bind; [tac | intros ? ?; destr_and]
  | |- post _ (if ?c then _ else _) => destruct c eqn:?
  | |- post _ (match ?x with _ => _ end) => destruct x eqn:?
  end).

Ltac fin :=
  repeat match goal with H : Forall (fun e => td e <= _) _ |- _ => apply Forall_td_max in H end;
  repeat match goal with H : Forall (fun s => tsd s <= _) _ |- _ => apply (proj2 (list_max_map_le tsd _ _)) in H end;
  try (split; [chk|]); cbn [td tsd fst snd] in *; try lia.


Theorem adequacy_all4 : forall f, GE f /\ GSS f /\ GB f /\ GS f /\ GF f.
Proof.
  induction f as [|f (IHe & IHss & IHb & IHs & IHf)].
  { split; [|split; [|split; [|split]]]; intros c0 k st x; intros.
    - pose proof (xd_pos x). lia.
    - unfold bdx in *. lia.
    - unfold bdx in *. lia.
    - pose proof (sdx_pos x). lia.
    - lia. }
  destruct (fuel_stmts4 f IHs) as [HSS HB].
  split; [|split; [exact HSS|split; [exact HB|split]]].
  - (* expressions *)
    intros c0 k st e Hn Hst Hk Hf. remember e as e0 eqn:Ee. destruct e; rewrite Ee in *; clear Ee; cbn [Infer.check_expr]; refold_goal.
    all: try solve [pg ltac:(idtac; sub_post IHe IHss IHb IHf c0 k f); fin].
    + (* match *) discriminate Hn.
    + (* call *)
      eapply (post_bind (fun st1 : cstate => st_checking st1 = c0)).
      { destruct (negb _); [|exact Hst]. destruct (find _ (d_fns D)) eqn:Ef; [|exact Hst].
        eapply post_bind; [eapply (IHf c0 k); [exact Hst|exact Hk|eapply find_In; exact Ef|bound]|].
        intros r Hr. cbn [post st_checking]. exact Hr. }
      intros st1 Hst1. pg ltac:(idtac; sub_post IHe IHss IHb IHf c0 k f); fin.
  - (* statements *)
    intros c0 k st s Hn Hst Hk Hf. remember s as s0 eqn:Es. destruct s; rewrite Es in *; clear Es; cbn [Infer.check_stmt]; refold_goal.
    all: try solve [pg ltac:(idtac; sub_post IHe IHss IHb IHf c0 k f); fin].
    + (* let *)
      eapply post_bind; [sub_post IHe IHss IHb IHf c0 k f|]. intros r [Hr1 Hr2].
      eapply (post_bind (fun b' : texpr => td b' <= f)).
      { destruct ty; [|exact Hr2]. eapply post_bind; [nf_tac|]. intros ty' _. eapply (post_check_type f f); [exact Hr2|lia]. }
      intros b' Hb'. pg ltac:(idtac; sub_post IHe IHss IHb IHf c0 k f); fin.
    + (* let mut *)
      eapply post_bind; [sub_post IHe IHss IHb IHf c0 k f|]. intros r [Hr1 Hr2].
      eapply (post_bind (fun b' : texpr => td b' <= f)).
      { destruct ty; [|exact Hr2]. eapply post_bind; [nf_tac|]. intros ty' _. eapply (post_check_type f f); [exact Hr2|lia]. }
      intros b' Hb'. pg ltac:(idtac; sub_post IHe IHss IHb IHf c0 k f); fin.
  - (* functions *)
    intros c0 k st fd Hst Hk Hin Hf. cbn [Infer.check_fn]. refold_goal.
    destruct (memL (uf_name fd) (st_checking st)) eqn:Em; [exact I|].
    eapply post_bind; [apply post_nf; apply np_params_loop|]. intros rp _.
    rewrite Hst in Em. pose proof (cnt_enter (d_fns D) c0 fd Hin Em) as Hcnt.
    destruct k as [|k']; [lia|].
    assert (Hfn : S (bdx (uf_body fd)) <= dmax (d_fns D)) by exact (in_list_max fneed (d_fns D) fd Hin).
    eapply post_bind.
    { eapply (IHb (uf_name fd :: c0) k'); [exact (Hfns fd Hin)|cbn [st_checking]; rewrite Hst; reflexivity|lia|].
      rewrite Nat.mul_succ_l in Hf. lia. }
    intros [[body ty] st1] [Hb1 Hb2]. cbn [fst snd] in *. cbv beta iota zeta.
    eapply post_bind; [nf_tac|]. intros ret_ty _.
    eapply (post_bind (fun _ : list tstmt => True)).
    { destruct (last (map Some body) None) as [[]|];
        try (destruct (negb _); [exact I|exact I]).
      eapply post_weaken; [eapply (post_map_last_expr _ f); [|exact Hb2]|auto].
      intros e1 He1. eapply (post_check_type f f); [exact He1|lia]. }
    intros body' _. cbn [post snd st_checking]. exact Hst.
Qed.

End Adequacy4.

(* ================================================================ whole programs *)

Section Terminates4.
Variable intern : list N -> N.

Lemma post_pub_loop4 D fuel (Hfns : forall fd, In fd (d_fns D) -> forallb no_s (uf_body fd) = true) : 1 + length (d_fns D) * dmax (d_fns D) <= fuel ->
  forall fns st, (forall fd, In fd fns -> In fd (d_fns D)) -> st_checking st = [] ->
  post (fun _ : cstate => True)
    ((fix go (fns : list ufndef) (st : cstate) : cres cstate :=
        match fns with
        | [] => COk st
        | fd :: r =>
            if uf_pub fd then
              match uf_params fd with
              | [] => CErr E_PubFnWithoutParams
              | _ =>
                  do r1 <- check_fn intern fuel D st fd;
                  go r (mkSt (st_env (snd r1))
                             ((uf_name fd, fst r1) ::
                              filter (fun nd => negb (list_eqb (fst nd) (uf_name fd))) (st_typed (snd r1)))
                             (st_checking (snd r1)))
              end
            else go r st
        end) fns st).
Proof.
  intros Hfuel. induction fns as [|fd fns IH]; intros st Hsub Hst; [exact I|].
  destruct (uf_pub fd); [|apply IH; [intros; apply Hsub; right; assumption|exact Hst]].
  destruct (uf_params fd); [exact I|].
  eapply post_bind.
  - eapply (proj2 (proj2 (proj2 (proj2 (adequacy_all4 intern D Hfns fuel)))) [] (length (d_fns D)));
      [exact Hst|rewrite cnt_nil; lia|apply Hsub; left; reflexivity|exact Hfuel].
  - intros r1 Hr1. apply IH; [intros; apply Hsub; right; assumption|exact Hr1].
Qed.

Theorem check_terminates_no_oracle P fuel :
  no_oracle P = true -> check_fuel_needed P <= fuel -> check_program_t intern fuel P <> CNoFuel.
Proof.
  intros Hno Hfuel. apply (post_nofuel (fun _ => True)). unfold check_program_t.
  eapply post_bind; [apply post_nf; apply np_check_consts|]. intros consts _.
  assert (Hns : nf (mapM (check_struct_def (map us_name (up_structs P)) (map ue_name (up_enums P))) (up_structs P)))
    by (apply np_mapM; intro; apply np_check_struct_def).
  assert (Hne : nf (mapM (check_enum_def (map us_name (up_structs P)) (map ue_name (up_enums P))) (up_enums P)))
    by (apply np_mapM; intro; apply np_check_enum_def).
  destruct (mapM (check_struct_def (map us_name (up_structs P)) (map ue_name (up_enums P))) (up_structs P)) as [structs| | |] eqn:Es;
    try exact I; [|discriminate Hns].
  cbn [cbind].
  destruct (mapM (check_enum_def (map us_name (up_structs P)) (map ue_name (up_enums P))) (up_enums P)) as [enums| | |] eqn:Ee;
    try exact I; [|discriminate Hne].
  cbn [cbind].
  set (field_tys := flat_map (fun sd => map snd (us_fields sd)) (up_structs P) ++
                    flat_map (fun ed => flat_map (fun v => match v with UVTuple _ ts => ts | UVUnit _ => [] end)
                                                 (ue_variants ed)) (up_enums P)).
  set (Dm := list_max (map utd field_tys)).
  assert (Hut : forall ut, In ut field_tys -> utd ut <= Dm) by (intros ut Hin; apply (in_list_max utd field_tys ut Hin)).
  assert (Dm_ok : forall name t, In t (field_types_of structs enums name) -> ctd t <= Dm).
  { intros name t Ht. unfold field_types_of in Ht. destruct (assocL name structs) as [def|] eqn:Ea.
    - apply assocL_In' in Ea. destruct (mapM_In' _ _ _ _ Es Ea) as [sd [Hsd Hc]].
      apply in_map_iff in Ht. destruct Ht as [ft [<- Hft]].
      eapply (struct_def_ctd _ _ _ _ Dm Hc); [|exact Hft].
      intros ut Hin. apply Hut. unfold field_tys. apply in_or_app. left. apply in_flat_map. exists sd. split; assumption.
    - destruct (assocL name enums) as [vs|] eqn:Eb; [|destruct Ht].
      apply assocL_In' in Eb. destruct (mapM_In' _ _ _ _ Ee Eb) as [ed [Hed Hc]].
      apply in_flat_map in Ht. destruct Ht as [[vn [ts|]] [Hv Ht]]; [|destruct Ht]. cbn [snd] in Ht.
      eapply (enum_def_ctd _ _ _ _ Dm Hc); [|exact Hv|exact Ht].
      intros v ut Hvin Hin. apply Hut. unfold field_tys. apply in_or_app. right.
      apply in_flat_map. exists ed. split; [exact Hed|]. apply in_flat_map. exists v. split; assumption. }
  eapply post_bind.
  { apply post_nf. apply np_mapM. intro name. apply np_bind; [|intros r _; destruct (fst r); reflexivity].
    eapply post_to_nf. eapply (ctd_adequate structs enums name Dm Dm_ok).
    unfold un. rewrite cnt_nil. unfold names. rewrite map_length, app_length, !map_length.
    rewrite (mapM_length _ _ _ Es), (mapM_length _ _ _ Ee).
    unfold check_fuel_needed, type_fuel_needed in Hfuel. fold field_tys in Hfuel. fold Dm in Hfuel.
    assert (Hc : ctd (match assocL name structs with Some _ => CStruct name | None => CEnum name end) = 1)
      by (destruct (assocL name structs); reflexivity).
    rewrite Hc. nia. }
  intros u _. cbv zeta.
  eapply post_bind.
  { match goal with |- context [check_fn intern fuel ?D0] => set (D := D0) end.
    apply (post_pub_loop4 D fuel); [|cbn [D d_fns]|intros fd H; exact H|reflexivity].
    { intros fd Hin. cbn [D d_fns] in Hin. unfold no_oracle in Hno. exact (proj1 (forallb_forall _ _) Hno fd Hin). }
    unfold check_fuel_needed in Hfuel. lia. }
  intros st _. destruct (existsb _ _); exact I.
Qed.

End Terminates4.

Print Assumptions irref_check.
Print Assumptions adequacy_all4.
Print Assumptions check_terminates_no_oracle.

(* ================================================================ (b), first step: the depth condition on cty

   [ctok D d ty]: the computable counterpart, on the checker's own types and definitions, of
   UsefulProofs.tok on the translated ones: ty unfolds within depth d (arrays are not pattern types:
   pat_ty gives None, the oracle is not run), every named type is defined, no enum is empty. *)
Fixpoint ctok (D : defs) (d : nat) (t : cty) {struct d} : bool :=
  match d with
  | O => false
  | S d' =>
      match t with
      | CTuple ts => forallb (ctok D d') ts
      | CStruct n => match assocL n (d_structs D) with
                     | Some fts => forallb (fun ft : list N * cty => ctok D d' (snd ft)) fts
                     | None => false
                     end
      | CEnum n => match assocL n (d_enums D) with
                   | Some vs => match vs with [] => false | _ => true end &&
                                forallb (fun v : list N * option (list cty) =>
                                           match snd v with Some ts => forallb (ctok D d') ts | None => true end) vs
                   | None => false
                   end
      | _ => true
      end
  end.

Lemma omap_forallb {A B} (g : A -> option B) (Pa : A -> bool) (Q : B -> bool) :
  (forall x y, Pa x = true -> g x = Some y -> Q y = true) ->
  forall l l', forallb Pa l = true -> omap g l = Some l' -> forallb Q l' = true.
Proof.
  intro H. induction l as [|x l IH]; intros l' Hp Ho; cbn [omap] in Ho.
  - inversion Ho. reflexivity.
  - cbn [forallb] in Hp. apply andb_true_iff in Hp. destruct Hp as [Hx Hl].
    destruct (g x) as [y|] eqn:Eg; [|discriminate]. destruct (omap g l) as [l0|] eqn:El; [|discriminate].
    inversion Ho; subst. cbn [forallb]. rewrite (H _ _ Hx Eg), (IH _ Hl eq_refl). reflexivity.
Qed.

Section CTok.
Variable intern : list N -> N.
Hypothesis intern_inj : forall a b, intern a = intern b -> a = b.
Variable D : defs.
Variable env : Pat.tyenv.
Hypothesis Henv : pat_tyenv intern D = Some env.

Lemma ctok_tok : forall d ty t, ctok D d ty = true -> pat_ty intern ty = Some t -> UsefulProofs.tok env d t = true.
Proof.
  induction d as [|d IH]; intros ty t Hc Ht; [discriminate|].
  assert (IHl : forall ts l, forallb (ctok D d) ts = true -> omap (pat_ty intern) ts = Some l -> forallb (UsefulProofs.tok env d) l = true).
  { intros ts l. apply omap_forallb. intros x y Hx Hy. exact (IH _ _ Hx Hy). }
  destruct ty as [|u|s|el n|ts|n|n]; cbn [ctok] in Hc.
  - inversion Ht. reflexivity.
  - inversion Ht. destruct u; reflexivity.
  - inversion Ht. destruct s; reflexivity.
  - discriminate Ht.
  - rewrite (pat_ty_tuple intern) in Ht. destruct (omap (pat_ty intern) ts) as [l|] eqn:El; [|discriminate].
    inversion Ht; subst. cbn [UsefulProofs.tok]. exact (IHl _ _ Hc El).
  - inversion Ht; subst. destruct (assocL n (d_structs D)) as [def|] eqn:Ea; [|discriminate].
    destruct (struct_lookup intern intern_inj D env Henv n def Ea) as [fts [Hl Ho]].
    cbn [UsefulProofs.tok]. rewrite Hl.
    eapply (omap_forallb _ (fun ft : list N * cty => ctok D d (snd ft))); [|exact Hc|exact Ho].
    intros x y Hx Hy. cbn beta in Hy. destruct (pat_ty intern (snd x)) as [t0|] eqn:Et; [|discriminate].
    inversion Hy; subst. cbn [snd]. exact (IH _ _ Hx Et).
  - inversion Ht; subst. destruct (assocL n (d_enums D)) as [vs|] eqn:Ea; [|discriminate].
    apply andb_true_iff in Hc. destruct Hc as [Hne Hc].
    destruct (enum_lookup intern intern_inj D env Henv n vs Ea) as [variants [Hl Ho]].
    cbn [UsefulProofs.tok]. rewrite Hl. apply andb_true_iff. split.
    + destruct vs as [|v vs]; [discriminate|]. cbn [omap] in Ho.
      match type of Ho with match ?a with _ => _ end = _ => destruct a; [|discriminate] end.
      match type of Ho with match ?a with _ => _ end = _ => destruct a; [|discriminate] end.
      inversion Ho. reflexivity.
    + eapply (omap_forallb _ (fun v : list N * option (list cty) => match snd v with Some ts => forallb (ctok D d) ts | None => true end)); [|exact Hc|exact Ho].
      intros x y Hx Hy. cbn beta in Hy. destruct (snd x) as [ts|].
      * destruct (omap (pat_ty intern) ts) as [l|] eqn:El; [|discriminate]. inversion Hy; subst. cbn [snd]. exact (IHl _ _ Hx El).
      * inversion Hy; subst. reflexivity.
Qed.
End CTok.

Lemma ctok_tok_ok intern (inj : forall a b, intern a = intern b -> a = b) D ty : ctok D 64 ty = true -> tok_ok intern D ty.
Proof. intros H env t He Ht. exact (ctok_tok intern inj D env He 64 ty t H Ht). Qed.

(* check_terminates_depth with the hypothesis on the checker's own types *)
Theorem check_terminates_ctok intern (inj : forall a b, intern a = intern b -> a = b) P fuel :
  (forall D ty ps, d_fns D = up_fns P -> Forall (from_check D ty) ps -> ctok D 64 ty = true) ->
  check_fuel_needed P <= fuel -> check_program_t intern fuel P <> CNoFuel.
Proof.
  intros H. apply (check_terminates_depth intern inj). intros D ty ps Hd Hf. apply (ctok_tok_ok intern inj). exact (H D ty ps Hd Hf).
Qed.

Print Assumptions ctok_tok.
Print Assumptions check_terminates_ctok.

(* ---------------------------------------------------------------- the fragment of (a) is inhabited *)
From GV Require Check.InferExamples.
Module Fuel4Examples.
Import InferExamples. Import String. Local Open Scope string_scope. Local Open Scope N_scope.

(* let (a, b) = (x, x); let P { a: q, b: _ } = P { a: a, b: true }; for i in 0u8..3u8 { .. }; inc(q) *)
Definition P_irref := mkUProgram [] [s_P] []
  [main_fn [px "x" u8] u8
     [XSLet (PTuple [pid "a"; pid "b"]) None (XTupleLiteral [id_ "x"; id_ "x"]);
      XSLet (PStruct (nm "P") [(nm "a", pid "q"); (nm "b", pid "_")]) None
            (XStructLiteral (nm "P") [(nm "a", id_ "a"); (nm "b", XTrue)]);
      XSForEach (pid "i") (XRange 0 3 U8) [XSExpr (id_ "i")];
      XSExpr (XFnCall (nm "inc") [id_ "q"])];
   mkUFn false (nm "inc") u8 [px "a" u8] [XSExpr (XOp BAdd (id_ "a") (XNumUnsigned 1 U8))]] (nm "main").

Example no_oracle_examples :
  forallb no_oracle [P_loop; P_lit; P_i32; P_ops; P_call; P_const; P_irref] = true /\
  no_oracle P_s3 = false /\
  match check_program_t ex_intern (check_fuel_needed P_irref) P_irref with COk _ => True | _ => False end.
Proof. vm_compute. repeat split; reflexivity. Qed.
End Fuel4Examples.
