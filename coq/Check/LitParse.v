(* A Gallina MODEL OF `Literal::parse` (src/literal.rs) AND OF `GarbleProgram::parse_arg`
   (src/lib.rs): the argument TEXT a user supplies is turned into a `Literal`.

     Literal::parse(checked, ty, text):
        scan(text)? .parse_literal()? .type_check(&top_level_defs, &mut env, &mut fns, &defs)?
        check_type(&mut expr, ty)?;  expr.ty = ty.clone();  Ok(expr.into_literal())
     with  top_level_defs = the struct / enum names of the CHECKED program,
           env = Env::new(), fns = TypedFns::new(),
           defs = Defs::new(&const_types, &checked.struct_defs, &checked.enum_defs)  (no functions).

   Every stage is an existing model: Front/Scan.v [scan_text], Front/ParseExpr.v
   [parse_literal_text] (Tokens::parse_literal), Check/UAst.v [xexpr_of_uexpr], Check/Infer.v
   [check_expr] / [check_type]; the result type is Lang/Literal.v [lit] (names interned as N by
   [intern]).  NEW here: [into_literal] (TypedExpr::into_literal with its `n as i64` / `n as u64`
   casts; its `panic!` / `unreachable!` are [CErr E_Panic]), [defs_of_tprogram] (Defs::new +
   TopLevelTypes from a checked program), [literal_parse], and the wrapper of lib.rs
   `parse_arg`: parameter look-up (InvalidArgIndex), `resolve_const_type` (the identity on the
   types of this model: const-sized arrays are [COutside] in Check/Infer.v), Literal::parse, and
   the type test `literal.is_of_type(&self.program, &ty)` lib.rs applies to the parsed literal
   (InvalidLiteralType) -- [literal_parse_program].

   Which error comes from which stage is not modelled faithfully (one code per stage); accept /
   reject and the resulting literal are.  Fuel: the scanner's and the parser's own defaults; the
   checker runs with 2 + the number of tokens (one unit per nesting level). *)
From Coq Require Import ZArith List.
Import ListNotations.
From GV Require Import Base.Util Front.Scan Front.ParseExpr Check.UAst Check.Infer.
From GV Require Lang.Types Lang.Literal.
Local Open Scope N_scope.

Module LT := GV.Lang.Types.
Module LL := GV.Lang.Literal.

(* error codes of the stages outside check.rs *)
Definition E_Scan : N := 200.                 (* scan(literal)? *)
Definition E_ParseLiteral : N := 201.         (* .parse_literal()? *)
Definition E_InvalidLiteralType : N := 202.   (* EvalError::InvalidLiteralType (parse_arg) *)
Definition E_InvalidArgIndex : N := 203.      (* EvalError::InvalidArgIndex (parse_arg) *)
Definition E_NoMain : N := 204.               (* the harness gave a main that is not a typed fn *)

(* ------------------------------------------------------------------ number types *)

Definition uty_of (t : unsigned_num_type) : LT.uty :=
  match t with
  | Usize => LT.Usize | U8 => LT.U8 | U16 => LT.U16 | U32 => LT.U32 | U64 => LT.U64
  | UnspecifiedU => LT.UUnspec
  end.
Definition sty_of (t : signed_num_type) : LT.sty :=
  match t with
  | I8 => LT.I8 | I16 => LT.I16 | I32 => LT.I32 | I64 => LT.I64 | UnspecifiedS => LT.SUnspec
  end.

(* Rust `n as i64` (n : u64) and `n as u64` (n : i64): reinterpretation of the 64 bits *)
Definition two64 : Z := 18446744073709551616%Z.
Definition two63 : Z := 9223372036854775808%Z.
Definition u64_as_i64 (n : N) : Z :=
  let z := (Z.of_N n mod two64)%Z in if (z <? two63)%Z then z else (z - two64)%Z.
Definition i64_as_u64 (z : Z) : N := Z.to_N (z mod two64)%Z.

(* ------------------------------------------------------------------ TypedExpr::into_literal *)

Fixpoint into_literal (intern : list N -> N) (e : texpr) {struct e} : cres LL.lit :=
  match e with
  | TE inner ty =>
      let go_list :=
        fix go (es : list texpr) : cres LL.lits :=
          match es with
          | [] => COk LL.LsNil
          | x :: r => do l <- into_literal intern x; do ls <- go r; COk (LL.LsCons l ls)
          end in
      match inner with
      | TTrue => COk LL.LTrue
      | TFalse => COk LL.LFalse
      | TNumUnsigned n _ =>
          match ty with
          | CUnsigned u => COk (LL.LUnsigned n (uty_of u))
          | CSigned s => COk (LL.LSigned (u64_as_i64 n) (sty_of s))
          | _ => CErr E_Panic               (* panic!("Literal type is not a number type") *)
          end
      | TNumSigned z _ =>
          match ty with
          | CUnsigned u => COk (LL.LUnsigned (i64_as_u64 z) (uty_of u))
          | CSigned s => COk (LL.LSigned z (sty_of s))
          | _ => CErr E_Panic
          end
      | TArrayRepeatLiteral elem size => do l <- into_literal intern elem; COk (LL.LRepeat l size)
      | TArrayLiteral elems => do ls <- go_list elems; COk (LL.LArray ls)
      | TTupleLiteral fields => do ls <- go_list fields; COk (LL.LTuple ls)
      | TStructLiteral name fields =>
          do fs <- (fix go (fs : list (list N * texpr)) : cres LL.lfields :=
                      match fs with
                      | [] => COk LL.LFNil
                      | (fname, x) :: r =>
                          do l <- into_literal intern x; do ls <- go r; COk (LL.LFCons (intern fname) l ls)
                      end) fields;
          COk (LL.LStruct (intern name) fs)
      | TEnumLiteral name variant_name None => COk (LL.LEnumUnit (intern name) (intern variant_name))
      | TEnumLiteral name variant_name (Some fields) =>
          do ls <- go_list fields; COk (LL.LEnumTuple (intern name) (intern variant_name) ls)
      | TRange mn mx num_ty => COk (LL.LRange mn mx (uty_of num_ty))
      | _ => CErr E_Panic                   (* unreachable!("This should result in a literal parse error instead") *)
      end
  end.

(* ------------------------------------------------------------------ Literal::parse *)

(* the checker's fuel: one unit per nesting level of the expression / of constrain_type *)
Definition lit_fuel (ts : list token) : nat := S (S (List.length ts)).

(* Env::new(), TypedFns::new() *)
Definition st_new : cstate := mkSt env_new [] [].

(* everything after `scan(literal)?` *)
Definition literal_parse_tokens (intern : list N -> N) (D : defs) (ty : cty) (ts : list token)
  : cres LL.lit :=
  match parse_literal_text (fuel_for_tokens ts) ts with
  | POk u _ =>
      do r <- check_expr intern (lit_fuel ts) D st_new (xexpr_of_uexpr u);
      do e <- check_type (lit_fuel ts) (fst r) ty;
      into_literal intern (set_ty e ty)          (* expr.ty = ty.clone(); expr.into_literal() *)
  | PErr => CErr E_ParseLiteral
  | PNoFuel => CNoFuel
  | POutside _ => COutside
  end.

Definition literal_parse (intern : list N -> N) (D : defs) (ty : cty) (text : list N) : cres LL.lit :=
  match scan_text text with
  | Ok (STokens ts) => literal_parse_tokens intern D ty ts
  | Ok (SErrors _) => CErr E_Scan
  | Crash => CErr E_Scan
  | OutOfFuel => CNoFuel
  end.

(* TopLevelTypes + Defs::new(&const_types, &checked.struct_defs, &checked.enum_defs): the
   definitions of the CHECKED program, no functions *)
Definition defs_of_tprogram (T : tprogram) : defs :=
  mkDefs (map (fun c => (fst c, ty_of (snd c))) (tp_consts T)) (tp_structs T) (tp_enums T) []
         (map fst (tp_structs T)) (map fst (tp_enums T)).

(* ------------------------------------------------------------------ the type a literal is tested against *)

(* Literal::is_of_type looks struct / enum names up in the checked program at every use;
   Lang/Literal.v tests against the RESOLVED type.  [rty_of_cty]: the checker's type with every
   name replaced by its definition in D (fields / variants in the order of the definition,
   names interned); None: an unknown name (is_of_type answers false) or out of fuel. *)
Fixpoint rty_of_cty (intern : list N -> N) (D : defs) (fuel : nat) (t : cty) {struct fuel} : option LT.rty :=
  match fuel with
  | O => None
  | S f =>
      let go_tys :=
        fix go (ts : list cty) : option LT.rtys :=
          match ts with
          | [] => Some LT.RsNil
          | x :: r =>
              match rty_of_cty intern D f x, go r with
              | Some x', Some r' => Some (LT.RsCons x' r')
              | _, _ => None
              end
          end in
      match t with
      | CBool => Some LT.RBool
      | CUnsigned u => Some (LT.RUnsigned (uty_of u))
      | CSigned s => Some (LT.RSigned (sty_of s))
      | CArray e n => match rty_of_cty intern D f e with Some e' => Some (LT.RArray e' n) | None => None end
      | CTuple ts => match go_tys ts with Some ts' => Some (LT.RTuple ts') | None => None end
      | CStruct name =>
          match assocL name (d_structs D) with
          | Some fields =>
              match (fix go (fs : list (list N * cty)) : option LT.rfields :=
                       match fs with
                       | [] => Some LT.RFNil
                       | (fname, ft) :: r =>
                           match rty_of_cty intern D f ft, go r with
                           | Some ft', Some r' => Some (LT.RFCons (intern fname) ft' r')
                           | _, _ => None
                           end
                       end) fields with
              | Some fs' => Some (LT.RStruct (intern name) fs')
              | None => None
              end
          | None => None
          end
      | CEnum name =>
          match assocL name (d_enums D) with
          | Some variants =>
              match (fix go (vs : list (list N * option (list cty))) : option LT.rvariants :=
                       match vs with
                       | [] => Some LT.RVNil
                       | (vname, None) :: r =>
                           match go r with Some r' => Some (LT.RVUnit (intern vname) r') | None => None end
                       | (vname, Some tys) :: r =>
                           match go_tys tys, go r with
                           | Some tys', Some r' => Some (LT.RVTuple (intern vname) tys' r')
                           | _, _ => None
                           end
                       end) variants with
              | Some vs' => Some (LT.REnum (intern name) vs')
              | None => None
              end
          | None => None
          end
      end
  end.

(* `literal.is_of_type(&program, &ty)` on the model's side *)
Definition lit_is_of_type (intern : list N -> N) (D : defs) (fuel : nat) (l : LL.lit) (t : cty) : option bool :=
  match rty_of_cty intern D fuel t with
  | Some r => Some (LL.is_of_type l r)
  | None => None
  end.

(* ------------------------------------------------------------------ GarbleProgram::parse_arg *)

(* parse_arg of an already checked program: the parameter, Literal::parse, the type test *)
Definition parse_arg (intern : list N -> N) (fuel : nat) (T : tprogram) (param_index : N) (text : list N)
  : cres LL.lit :=
  match assocL (tp_main T) (tp_fns T) with
  | None => CErr E_NoMain
  | Some main =>
      match nthN (tf_params main) param_index with
      | None => CErr E_InvalidArgIndex
      | Some (_, _, ty) =>
          let D := defs_of_tprogram T in
          do l <- literal_parse intern D ty text;
          match lit_is_of_type intern D fuel l ty with
          | Some true => COk l
          | Some false => CErr E_InvalidLiteralType
          | None => CNoFuel
          end
      end
  end.

(* from the untyped program: check it (Check/Infer.v), then parse_arg *)
Definition literal_parse_program (intern : list N -> N) (fuel : nat) (P : uprogram) (param_index : N)
    (text : list N) : cres LL.lit :=
  do T <- check_program_t intern fuel P;
  parse_arg intern fuel T param_index text.

(* the same WITHOUT the type test of lib.rs: what `Literal::parse(&program, &param_ty, text)` returns *)
Definition literal_parse_param (intern : list N -> N) (fuel : nat) (P : uprogram) (param_index : N)
    (text : list N) : cres LL.lit :=
  do T <- check_program_t intern fuel P;
  match assocL (tp_main T) (tp_fns T) with
  | None => CErr E_NoMain
  | Some main =>
      match nthN (tf_params main) param_index with
      | None => CErr E_InvalidArgIndex
      | Some (_, _, ty) => literal_parse intern (defs_of_tprogram T) ty text
      end
  end.
