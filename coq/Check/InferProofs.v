(* Theorems about the checker model Check/Infer.v. *)
From GV Require Import Base.Util Front.Scan Front.ParseExpr Check.UAst Check.Infer Check.InferExamples.
From GV Require Lang.Ast Lang.Wt.
Local Open Scope N_scope.

(* ------------------------------------------------------------------ the result monad *)

Lemma cbind_ok {A B} (r : cres A) (k : A -> cres B) b :
  cbind r k = COk b -> exists a, r = COk a /\ k a = COk b.
Proof. destruct r; cbn; intro H; try discriminate. eauto. Qed.

Lemma cbind_not_ok {A B} (r : cres A) (k : A -> cres B) :
  is_ok r = false -> is_ok (cbind r k) = false.
Proof. destruct r; cbn; auto; discriminate. Qed.

Lemma cbind_is_ok {A B} (r : cres A) (k : A -> cres B) :
  is_ok (cbind r k) = true -> exists a, r = COk a /\ is_ok (k a) = true.
Proof. destruct r; cbn; intro H; try discriminate. eauto. Qed.

Lemma is_ok_COk {A} (r : cres A) : is_ok r = true -> exists a, r = COk a.
Proof. destruct r; cbn; intro H; try discriminate. eauto. Qed.

Ltac inv_ok H :=
  match type of H with
  | cbind ?r ?k = COk ?b =>
      let a := fresh "a" in let H1 := fresh "H" in let H2 := fresh "H" in
      apply cbind_ok in H; destruct H as [a [H1 H2]]; cbv beta in H2
  | COk _ = COk _ => inversion H; subst; clear H
  | CErr _ = COk _ => discriminate H
  | COutside = COk _ => discriminate H
  | CNoFuel = COk _ => discriminate H
  end.

(* ------------------------------------------------------------------ equality of types *)

Lemma list_eqb_eq : forall a b : list N, list_eqb a b = true -> a = b.
Proof.
  induction a as [|x a IH]; destruct b as [|y b]; cbn; intro H; try discriminate; auto.
  apply andb_true_iff in H. destruct H as [H1 H2]. apply N.eqb_eq in H1. f_equal; auto.
Qed.

Lemma list_eqb_refl : forall a : list N, list_eqb a a = true.
Proof. induction a; cbn; auto. rewrite N.eqb_refl. auto. Qed.

Lemma cty_ind' (P : cty -> Prop) :
  P CBool -> (forall t, P (CUnsigned t)) -> (forall t, P (CSigned t)) ->
  (forall e n, P e -> P (CArray e n)) -> (forall ts, Forall P ts -> P (CTuple ts)) ->
  (forall n, P (CStruct n)) -> (forall n, P (CEnum n)) -> forall t, P t.
Proof.
  intros H0 H1 H2 H3 H4 H5 H6. fix IH 1. destruct t.
  - exact H0.
  - apply H1.
  - apply H2.
  - apply H3. apply IH.
  - apply H4. induction ts as [|x xs IHxs]; constructor; [apply IH | exact IHxs].
  - apply H5.
  - apply H6.
Qed.

Lemma cty_eqb_eq : forall a b, cty_eqb a b = true -> a = b.
Proof.
  induction a using cty_ind'; destruct b; cbn [cty_eqb]; intro E; try discriminate; auto.
  - unfold unsigned_eqb in E. destruct (unsigned_num_type_eq_dec t t0); congruence.
  - unfold signed_eqb in E. destruct (signed_num_type_eq_dec t t0); congruence.
  - apply andb_true_iff in E. destruct E as [E1 E2]. apply N.eqb_eq in E2. f_equal; auto.
  - f_equal. revert ts0 E. induction H as [|x xs Hx Hxs IH]; destruct ts0 as [|y ys]; intro E; try discriminate; auto.
    apply andb_true_iff in E. destruct E as [E1 E2]. f_equal; auto.
  - f_equal. apply list_eqb_eq; auto.
  - f_equal. apply list_eqb_eq; auto.
Qed.

Lemma cty_eqb_refl : forall a, cty_eqb a a = true.
Proof.
  induction a using cty_ind'; cbn [cty_eqb]; auto.
  - unfold unsigned_eqb. destruct (unsigned_num_type_eq_dec t t); congruence.
  - unfold signed_eqb. destruct (signed_num_type_eq_dec t t); congruence.
  - rewrite IHa, N.eqb_refl. auto.
  - induction H; auto. rewrite H. auto.
  - apply list_eqb_refl.
  - apply list_eqb_refl.
Qed.

Lemma cty_eqb_neq a b : a <> b -> cty_eqb a b = false.
Proof. intro H. destruct (cty_eqb a b) eqn:E; auto. apply cty_eqb_eq in E. contradiction. Qed.

(* ------------------------------------------------------------------ check_type, unify *)

(* check_type returns an expression of exactly the expected type *)
Lemma check_type_ty f e t e' : check_type f e t = COk e' -> ty_of e' = t.
Proof.
  unfold check_type. intro H. inv_ok H.
  destruct (cty_eqb (ty_of a) t) eqn:E; [|discriminate].
  inv_ok H1. apply cty_eqb_eq; auto.
Qed.

Lemma ty_of_set_ty e t : ty_of (set_ty e t) = t.
Proof. destruct e; reflexivity. Qed.

(* unify gives both expressions the returned type *)
Lemma unify_ty f a b a' b' t : unify f a b = COk (a', b', t) -> ty_of a' = t /\ ty_of b' = t.
Proof.
  unfold unify. intro H.
  destruct (cty_eqb (ty_of a) (ty_of b)).
  - inv_ok H. rewrite !ty_of_set_ty. auto.
  - destruct (ty_of a) as [|[]|[]| | | |]; destruct (ty_of b) as [|[]|[]| | | |]; try discriminate;
      inv_ok H; inv_ok H1; rewrite !ty_of_set_ty; auto.
Qed.

(* the types unify accepts: equal, or one side is an unspecified number that the other side's
   number type can absorb *)
Definition unify_compat (t1 t2 : cty) : bool :=
  cty_eqb t1 t2 ||
  match t1, t2 with
  | CUnsigned UnspecifiedU, (CUnsigned _ | CSigned _) => true
  | (CUnsigned _ | CSigned _), CUnsigned UnspecifiedU => true
  | CSigned UnspecifiedS, CSigned _ => true
  | CSigned _, CSigned UnspecifiedS => true
  | _, _ => false
  end.

Lemma unify_incompat f a b : unify_compat (ty_of a) (ty_of b) = false -> unify f a b = CErr E_TypeMismatch.
Proof.
  unfold unify, unify_compat. intro H. apply orb_false_iff in H. destruct H as [H1 H2]. rewrite H1.
  destruct (ty_of a) as [|[]|[]| | | |]; destruct (ty_of b) as [|[]|[]| | | |]; try discriminate; reflexivity.
Qed.

(* constraining to bool never changes the type of the node *)
Lemma constrain_type_bool_ty f e e' : constrain_type f e CBool = COk e' -> ty_of e' = ty_of e.
Proof.
  destruct f as [|f]; cbn [constrain_type]; intro H; [discriminate|].
  inv_ok H. inv_ok H1. rewrite ty_of_set_ty. cbn [overwrite_ty].
  destruct e as [ei t]. cbn [inner_of ty_of] in *.
  destruct ei; try (inv_ok H0; reflexivity).
  - inv_ok H0. inv_ok H1. reflexivity.
  - inv_ok H0. inv_ok H1. reflexivity.
  - destruct o; try (inv_ok H0; reflexivity); inv_ok H0; try (inv_ok H1; reflexivity); inv_ok H1; inv_ok H2; reflexivity.
  - inv_ok H0. inv_ok H1. reflexivity.
  - inv_ok H0. inv_ok H1. inv_ok H2. reflexivity.
  - (* TRange: the arm of fix 7bf4e4f only fires at array types *)
    match goal with H : context [TRange _ _ ?u] |- _ => destruct u end; inv_ok H0; reflexivity.
Qed.

Lemma check_type_bool f e e' : check_type f e CBool = COk e' -> ty_of e = CBool.
Proof.
  intro H. pose proof (check_type_ty _ _ _ _ H) as Ht.
  unfold check_type in H. inv_ok H. destruct (cty_eqb (ty_of a) CBool); [|discriminate]. inv_ok H1.
  apply constrain_type_bool_ty in H0. congruence.
Qed.

(* ================================================================== T2: rejection of ill-typed constructs
   (local form: the construct is rejected in EVERY state in which its sub-expressions are
   accepted; [accepted_children_ok] below lifts "rejected" to every context) *)

Section Local.
Variable intern : list N -> N.
Notation check_expr := (check_expr intern).
Notation check_stmt := (check_stmt intern).
Notation check_stmts := (check_stmts intern).
Notation check_block := (check_block intern).
Notation check_fn := (check_fn intern).

Lemma unknown_identifier_rejected f D st x :
  env_get (st_env st) x = None -> assocL x (d_consts D) = None ->
  check_expr (S f) D st (XIdentifier x) = CErr E_UnknownIdentifier.
Proof. intros H1 H2. cbn [Infer.check_expr]. rewrite H1, H2. reflexivity. Qed.

(* an `if` whose condition is not bool *)
Lemma if_cond_not_bool_rejected f D st c a b c1 st1 :
  check_expr f D st c = COk (c1, st1) -> ty_of c1 <> CBool ->
  is_ok (check_expr (S f) D st (XIf c a b)) = false.
Proof.
  intros Hc Hn. cbn [Infer.check_expr]. rewrite Hc. cbn [cbind fst snd].
  destruct (check_expr f D st1 a) as [[a1 st2]| | |]; cbn [cbind is_ok fst snd]; auto.
  destruct (check_expr f D st2 b) as [[b1 st3]| | |]; cbn [cbind is_ok fst snd]; auto.
  destruct (check_type f c1 CBool) eqn:E; cbn [cbind is_ok]; auto.
  apply check_type_bool in E. contradiction.
Qed.

(* an `if` whose branches have different types *)
Lemma if_branches_differ_rejected f D st c a b c1 st1 a1 st2 b1 st3 :
  check_expr f D st c = COk (c1, st1) -> check_expr f D st1 a = COk (a1, st2) ->
  check_expr f D st2 b = COk (b1, st3) -> unify_compat (ty_of a1) (ty_of b1) = false ->
  is_ok (check_expr (S f) D st (XIf c a b)) = false.
Proof.
  intros Hc Ha Hb Hu. cbn [Infer.check_expr]. rewrite Hc. cbn [cbind fst snd]. rewrite Ha. cbn [cbind fst snd].
  rewrite Hb. cbn [cbind fst snd]. destruct (check_type f c1 CBool); cbn [cbind is_ok]; auto.
  rewrite (unify_incompat _ _ _ Hu). reflexivity.
Qed.

(* the operators that unify their operands: arithmetic, bitwise, comparisons, equality *)
Definition uses_unify (op : bin_op) : bool :=
  match op with
  | BShortCircuitAnd | BShortCircuitOr | BShiftLeft | BShiftRight => false
  | _ => true
  end.

Lemma operands_differ_rejected f D st op x y x1 st1 y1 st2 :
  uses_unify op = true ->
  check_expr f D st x = COk (x1, st1) -> check_expr f D st1 y = COk (y1, st2) ->
  unify_compat (ty_of x1) (ty_of y1) = false ->
  check_expr (S f) D st (XOp op x y) = CErr E_TypeMismatch.
Proof.
  intros Hop Hx Hy Hu. cbn [Infer.check_expr]. rewrite Hx. cbn [cbind fst snd]. rewrite Hy. cbn [cbind fst snd].
  destruct op; try discriminate Hop; rewrite (unify_incompat _ _ _ Hu); reflexivity.
Qed.

(* `&&` / `||` on a non-bool operand *)
Lemma logical_non_bool_rejected f D st op x y x1 st1 y1 st2 :
  op = BShortCircuitAnd \/ op = BShortCircuitOr ->
  check_expr f D st x = COk (x1, st1) -> check_expr f D st1 y = COk (y1, st2) ->
  ty_of x1 <> CBool \/ ty_of y1 <> CBool ->
  check_expr (S f) D st (XOp op x y) = CErr E_UnexpectedType.
Proof.
  intros Hop Hx Hy Hn. cbn [Infer.check_expr]. rewrite Hx. cbn [cbind fst snd]. rewrite Hy. cbn [cbind fst snd].
  destruct Hop; subst op; destruct (ty_of x1), (ty_of y1); try reflexivity; destruct Hn; congruence.
Qed.

(* assignment to an unbound / immutable variable *)
Lemma assign_unbound_rejected f D st x accs v :
  env_get (st_env st) x = None ->
  check_stmt (S f) D st (XSVarAssign x accs v) = CErr E_UnknownIdentifier.
Proof. intro H. cbn [Infer.check_stmt]. rewrite H. reflexivity. Qed.

Lemma assign_immutable_rejected f D st x accs v t :
  env_get (st_env st) x = Some (t, false) ->
  check_stmt (S f) D st (XSVarAssign x accs v) = CErr E_IdentifierNotDeclaredAsMutable.
Proof. intro H. cbn [Infer.check_stmt]. rewrite H. reflexivity. Qed.

(* an index that is neither usize nor an unsuffixed literal-typed expression *)
Lemma coc_unsigned_wrong_ty e u :
  ty_of e <> CUnsigned u -> ty_of e <> CUnsigned UnspecifiedU ->
  check_or_constrain_unsigned e u = CErr E_UnexpectedType.
Proof.
  intros H1 H2. unfold check_or_constrain_unsigned, is_uU, uU.
  rewrite (cty_eqb_neq _ _ H1), (cty_eqb_neq _ _ H2). reflexivity.
Qed.

(* the same for the version every caller outside constrain_type uses (fix 64720dd): the type test comes first *)
Lemma coc_unsigned_deep_wrong_ty f e u :
  ty_of e <> CUnsigned u -> ty_of e <> CUnsigned UnspecifiedU ->
  coc_unsigned_deep f e u = CErr E_UnexpectedType.
Proof.
  intros H1 H2. unfold coc_unsigned_deep, is_uU, uU.
  rewrite (cty_eqb_neq _ _ H1), (cty_eqb_neq _ _ H2). reflexivity.
Qed.

Lemma index_not_usize_rejected f D st a i a1 st1 i1 st2 :
  check_expr f D st a = COk (a1, st1) -> check_expr f D st1 i = COk (i1, st2) ->
  ty_of i1 <> CUnsigned Usize -> ty_of i1 <> CUnsigned UnspecifiedU ->
  is_ok (check_expr (S f) D st (XArrayAccess a i)) = false.
Proof.
  intros Ha Hi H1 H2. cbn [Infer.check_expr]. rewrite Ha. cbn [cbind fst snd]. rewrite Hi. cbn [cbind fst snd].
  destruct (expect_array_type (ty_of a1)); cbn [cbind is_ok]; auto.
  rewrite (coc_unsigned_deep_wrong_ty _ _ _ H1 H2). reflexivity.
Qed.

Lemma index_non_array_rejected f D st a i a1 st1 i1 st2 :
  check_expr f D st a = COk (a1, st1) -> check_expr f D st1 i = COk (i1, st2) ->
  (forall e n, ty_of a1 <> CArray e n) ->
  check_expr (S f) D st (XArrayAccess a i) = CErr E_ExpectedArrayType.
Proof.
  intros Ha Hi H. cbn [Infer.check_expr]. rewrite Ha. cbn [cbind fst snd]. rewrite Hi. cbn [cbind fst snd].
  destruct (ty_of a1) eqn:E; try reflexivity. exfalso. eapply H. reflexivity.
Qed.

(* tuple index out of range *)
Lemma tuple_index_out_of_range_rejected f D st e i e1 st1 ts :
  check_expr f D st e = COk (e1, st1) -> ty_of e1 = CTuple ts -> lenN ts <= i ->
  check_expr (S f) D st (XTupleAccess e i) = CErr E_TupleAccessOutOfBounds.
Proof.
  intros He Ht Hi. cbn [Infer.check_expr]. rewrite He. cbn [cbind fst snd]. rewrite Ht. cbn [expect_tuple_type cbind].
  unfold nthN. destruct (N.ltb_spec i (lenN ts)); [lia|reflexivity].
Qed.

(* a shift amount that is not u8 *)
Lemma shift_amount_not_u8_rejected f D st op x y x1 st1 y1 st2 :
  op = BShiftLeft \/ op = BShiftRight ->
  check_expr f D st x = COk (x1, st1) -> check_expr f D st1 y = COk (y1, st2) ->
  ty_of y1 <> CUnsigned U8 -> ty_of y1 <> CUnsigned UnspecifiedU ->
  is_ok (check_expr (S f) D st (XOp op x y)) = false.
Proof.
  intros Hop Hx Hy H1 H2. cbn [Infer.check_expr]. rewrite Hx. cbn [cbind fst snd]. rewrite Hy. cbn [cbind fst snd].
  destruct Hop; subst op; (destruct (expect_num_type (ty_of x1)); cbn [cbind is_ok]; auto;
    rewrite (coc_unsigned_deep_wrong_ty _ _ _ H1 H2); reflexivity).
Qed.

(* unary minus on something that is not a signed number *)
Lemma neg_unsigned_rejected f D st x x1 st1 :
  check_expr f D st x = COk (x1, st1) -> (forall s, ty_of x1 <> CSigned s) ->
  check_expr (S f) D st (XUnaryOp UoNeg x) = CErr E_ExpectedSignedNumberType.
Proof.
  intros Hx H. cbn [Infer.check_expr]. rewrite Hx. cbn [cbind fst snd].
  destruct (ty_of x1) eqn:E; try reflexivity. exfalso. eapply H. reflexivity.
Qed.

(* calls: unknown function, wrong number of arguments *)
Lemma unknown_function_rejected f D st g args :
  assocL g (st_typed st) = None -> find (fun d => list_eqb (uf_name d) g) (d_fns D) = None ->
  check_expr (S f) D st (XFnCall g args) = CErr E_UnknownIdentifier.
Proof. intros H1 H2. cbn [Infer.check_expr]. rewrite H1. cbn [negb]. rewrite H2. cbn [cbind]. rewrite H1. reflexivity. Qed.

End Local.

(* ================================================================== T2: scoping *)

Lemma tl_env_let g x t m : tl (env_let g x t m) = tl g.
Proof. destruct g; reflexivity. Qed.

Lemma env_pop_tl g : env_pop g = tl g.
Proof. destruct g; reflexivity. Qed.

Ltac inv_all :=
  repeat match goal with
  | H : cbind _ _ = COk _ |- _ =>
      let a := fresh "a" in let H1 := fresh "Hb" in
      apply cbind_ok in H; destruct H as [a [H1 H]]; cbv beta in H
  | H : COk _ = COk _ |- _ => inversion H; subst; clear H
  | H : CErr _ = COk _ |- _ => discriminate H
  | H : COutside = COk _ |- _ => discriminate H
  | H : CNoFuel = COk _ |- _ => discriminate H
  | H : (if ?c then _ else _) = COk _ |- _ => destruct c eqn:?
  end.

Lemma upattern_ind' (P : upattern -> Prop) :
  (forall s, P (PIdentifier s)) -> P PTrue -> P PFalse ->
  (forall n t, P (PNumUnsigned n t)) -> (forall z t, P (PNumSigned z t)) ->
  (forall ps, Forall P ps -> P (PTuple ps)) ->
  (forall n fs, Forall (fun f => P (snd f)) fs -> P (PStruct n fs)) ->
  (forall n fs, Forall (fun f => P (snd f)) fs -> P (PStructIgnoreRemaining n fs)) ->
  (forall e v, P (PEnumUnit e v)) -> (forall e v ps, Forall P ps -> P (PEnumTuple e v ps)) ->
  (forall lo hi t, P (PUnsignedInclusiveRange lo hi t)) ->
  (forall lo hi t, P (PSignedInclusiveRange lo hi t)) -> forall p, P p.
Proof.
  intros H0 H1 H2 H3 H4 H5 H6 H7 H8 H9 H10 H11. fix IH 1. destruct p.
  - apply H0.
  - exact H1.
  - exact H2.
  - apply H3.
  - apply H4.
  - apply H5. induction ps as [|x xs IHxs]; constructor; [apply IH | exact IHxs].
  - apply H6. induction fields as [|[n0 q] xs IHxs]; constructor; [apply IH | exact IHxs].
  - apply H7. induction fields as [|[n0 q] xs IHxs]; constructor; [apply IH | exact IHxs].
  - apply H8.
  - apply H9. induction ps as [|x xs IHxs]; constructor; [apply IH | exact IHxs].
  - apply H10.
  - apply H11.
Qed.

(* a pattern only adds bindings to the CURRENT scope *)
Definition pat_tl_ok (D : defs) (p : upattern) : Prop :=
  forall g ty r, check_pattern D g p ty = COk r -> tl (snd r) = tl g.

Lemma fields_loop_tl D fs : Forall (pat_tl_ok D) fs ->
  forall ts g r,
    (fix go (fs : list upattern) (ts : list cty) (g : cenv) : cres (list tpattern * cenv) :=
       match fs, ts with
       | fp :: fr, t :: tr =>
           do r1 <- check_pattern D g fp t; do r2 <- go fr tr (snd r1); COk (fst r1 :: fst r2, snd r2)
       | _, _ => COk ([], g)
       end) fs ts g = COk r -> tl (snd r) = tl g.
Proof.
  induction 1 as [|q fs Hq Hfs IHfs]; intros ts g0 r0 H0.
  - inv_all. reflexivity.
  - destruct ts as [|t ts]; [inv_all; reflexivity|].
    inv_all. cbn [snd].
    match goal with H1 : check_pattern _ _ _ _ = _, H2 : _ = COk ?a0 |- tl (snd ?a0) = _ =>
      apply IHfs in H2; apply Hq in H1; congruence end.
Qed.

Lemma struct_loop_tl D sd fs : Forall (fun f => pat_tl_ok D (snd f)) fs ->
  forall seen g r,
    (fix go (seen : list (list N)) (fs : list (list N * upattern)) (g : cenv)
       : cres (list (list N * tpattern) * cenv) :=
       match fs with
       | [] => COk ([], g)
       | (field_name, field_value) :: fr =>
           if memL field_name seen then CErr E_PatternDoesNotMatchType else
           match assocL field_name sd with
           | Some field_type =>
               do r1 <- check_pattern D g field_value field_type;
               do r2 <- go (field_name :: seen) fr (snd r1);
               COk ((field_name, fst r1) :: fst r2, snd r2)
           | None => CErr E_UnknownStructField
           end
       end) seen fs g = COk r -> tl (snd r) = tl g.
Proof.
  induction 1 as [|[fname fp] fs Hq Hfs IHfs]; intros seen g0 r0 H0.
  - inv_all. reflexivity.
  - destruct (memL fname seen); [discriminate|]. destruct (assocL fname sd); [|discriminate].
    inv_all. cbn [snd] in *.
    match goal with H1 : check_pattern _ _ _ _ = _, H2 : _ = COk ?a0 |- tl (snd ?a0) = _ =>
      apply IHfs in H2; apply Hq in H1; congruence end.
Qed.

Lemma check_pattern_tl D : forall p g ty r, check_pattern D g p ty = COk r -> tl (snd r) = tl g.
Proof.
  intro p. change (pat_tl_ok D p). induction p using upattern_ind'; intros g ty r HH; cbn [check_pattern] in HH.
  - inv_all. cbn [snd]. apply tl_env_let.
  - destruct ty; inv_all. reflexivity.
  - destruct ty; inv_all. reflexivity.
  - inv_all. reflexivity.
  - inv_all. reflexivity.
  - inv_all. cbn [snd].
    match goal with H0 : _ = COk ?a0 |- tl (snd ?a0) = _ => eapply fields_loop_tl; [|exact H0]; assumption end.
  - inv_all. destruct (assocL n (d_structs D)) as [sd|]; [|discriminate]. inv_all. cbn [snd].
    match goal with H0 : _ = COk ?a0 |- tl (snd ?a0) = _ => eapply struct_loop_tl; [|exact H0]; assumption end.
  - inv_all. destruct (assocL n (d_structs D)) as [sd|]; [|discriminate]. inv_all. cbn [snd].
    match goal with H0 : _ = COk ?a0 |- tl (snd ?a0) = _ => eapply struct_loop_tl; [|exact H0]; assumption end.
  - destruct ty; try discriminate. inv_all.
    destruct (assocL e (d_enums D)) as [ed|]; [|discriminate].
    destruct (assocL v ed) as [[?|]|]; try discriminate. inv_all. reflexivity.
  - destruct ty; try discriminate. inv_all.
    destruct (assocL e (d_enums D)) as [ed|]; [|discriminate].
    destruct (assocL v ed) as [[fts|]|]; try discriminate.
    inv_all. cbn [snd].
    match goal with H0 : _ = COk ?a0 |- tl (snd ?a0) = _ => eapply fields_loop_tl; [|exact H0]; assumption end.
  - inv_all. reflexivity.
  - inv_all. reflexivity.
Qed.

Section Scoping.
Variable intern : list N -> N.
Notation check_expr := (check_expr intern).
Notation check_stmt := (check_stmt intern).
Notation check_stmts := (check_stmts intern).
Notation check_block := (check_block intern).
Notation check_fn := (check_fn intern).

Lemma mapM_st_same {A B} (g : cstate -> A -> cres (B * cstate)) :
  (forall st x r, g st x = COk r -> st_env (snd r) = st_env st) ->
  forall l st r, mapM_st g st l = COk r -> st_env (snd r) = st_env st.
Proof.
  intros Hg. induction l as [|x l IH]; intros st r H; cbn [mapM_st] in H; inv_all; [reflexivity|].
  cbn [snd]. match goal with H1 : g _ _ = _, H2 : mapM_st _ _ _ = _ |- _ => apply Hg in H1; apply IH in H2; congruence end.
Qed.

Lemma mapM_st_tl {A B} (g : cstate -> A -> cres (B * cstate)) :
  (forall st x r, g st x = COk r -> tl (st_env (snd r)) = tl (st_env st)) ->
  forall l st r, mapM_st g st l = COk r -> tl (st_env (snd r)) = tl (st_env st).
Proof.
  intros Hg. induction l as [|x l IH]; intros st r H; cbn [mapM_st] in H; inv_all; [reflexivity|].
  cbn [snd]. match goal with H1 : g _ _ = _, H2 : mapM_st _ _ _ = _ |- _ => apply Hg in H1; apply IH in H2; congruence end.
Qed.

Ltac destr_tuples := repeat match goal with x : (_ * _)%type |- _ => destruct x end.
Ltac inv_all' := repeat (progress (inv_all; destr_tuples; cbn [fst snd] in * )).

Lemma accs_loop_same ce fu D :
  (forall st x r, ce st x = COk r -> st_env (snd r) = st_env st) ->
  forall accs st t r, accs_loop ce fu D st t accs = COk r -> st_env (snd r) = st_env st.
Proof.
  intros Hce. induction accs as [|a accs IH]; intros st t r H; cbn [accs_loop] in H; [inv_all; reflexivity|].
  apply cbind_ok in H. destruct H as [[[ta t'] st'] [H1 H2]]. cbv beta iota in H2.
  apply cbind_ok in H2. destruct H2 as [[[tas tf] st''] [H2 H3]]. cbv beta iota in H3. inv_all. cbn [snd].
  apply IH in H2. cbn [snd] in H2. rewrite H2. clear H2 IH.
  destruct a.
  - inv_all'. match goal with H : ce _ _ = _ |- _ => apply Hce in H; exact H end.
  - inv_all'. destruct (nthN _ _); inv_all. reflexivity.
  - inv_all'. destruct (assocL _ (d_structs D)); [|discriminate]. destruct (assocL _ _); inv_all. reflexivity.
Qed.

Lemma struct_lit_loop_same ce f sd :
  (forall st x r, ce st x = COk r -> st_env (snd r) = st_env st) ->
  forall fields seen st r, struct_lit_loop ce f sd seen st fields = COk r -> st_env (snd r) = st_env st.
Proof.
  intros Hce. induction fields as [|[fname fv] fields IH]; intros seen st r H; cbn [struct_lit_loop] in H; inv_all; [reflexivity|].
  destruct (assocL fname sd); [|discriminate]. inv_all. cbn [snd].
  match goal with H1 : ce _ _ = _, H2 : struct_lit_loop _ _ _ _ _ _ = _ |- _ => apply Hce in H1; apply IH in H2; congruence end.
Qed.

Ltac use_e IHe := repeat match goal with
  | H : Infer.check_expr _ _ _ _ _ = COk _ |- _ => apply IHe in H
  | H : mapM_st (Infer.check_expr _ _ _) _ _ = COk _ |- _ => apply (mapM_st_same _ IHe) in H
  end.

Ltac fin := cbn [snd fst st_env with_env] in *; try congruence.

(* THE SCOPING THEOREM: checking an expression leaves the environment exactly as it was (whatever
   a block, a branch, a match arm or a called function binds is gone afterwards); a statement /
   statement list only changes the CURRENT scope; a function check restores the caller's Env. *)
Theorem check_env f D :
  (forall st e r, check_expr f D st e = COk r -> st_env (snd r) = st_env st) /\
  (forall st b r, check_stmts f D st b = COk r -> tl (st_env (snd r)) = tl (st_env st)) /\
  (forall st b r, check_block f D st b = COk r -> tl (st_env (snd r)) = tl (st_env st)) /\
  (forall st s r, check_stmt f D st s = COk r -> tl (st_env (snd r)) = tl (st_env st)) /\
  (forall st fd r, check_fn f D st fd = COk r -> st_env (snd r) = st_env st).
Proof.
  induction f as [|f IH].
  { repeat split; intros; discriminate. }
  destruct IH as (IHe & IHss & IHb & IHs & IHf).
  split; [|split; [|split; [|split]]].
  - (* expressions *)
    intros st e r H. destruct e; cbn [Infer.check_expr] in H.
    + inv_all; reflexivity.
    + inv_all; reflexivity.
    + inv_all; reflexivity.
    + inv_all; reflexivity.
    + destruct (env_get (st_env st) s) as [[? ?]|]; [inv_all; reflexivity|].
      destruct (assocL s (d_consts D)); inv_all; reflexivity.
    + inv_all. destruct (fst a) eqn:E; [discriminate|]. inv_all. use_e IHe. fin.
    + inv_all. use_e IHe. fin.
    + discriminate.
    + inv_all. use_e IHe. fin.
    + inv_all. use_e IHe. fin.
    + inv_all. destruct (nthN _ _); inv_all. use_e IHe. fin.
    + inv_all. destruct (assocL _ (d_structs D)); [|discriminate]. destruct (assocL _ _); inv_all. use_e IHe. fin.
    + destruct (assocL name (d_structs D)); [|discriminate]. inv_all.
      match goal with H1 : struct_lit_loop _ _ _ _ _ _ = _ |- _ => apply (struct_lit_loop_same _ _ _ IHe) in H1 end. fin.
    + destruct (assocL e (d_enums D)) as [ed|]; [|discriminate]. destruct (assocL v ed) as [[?|]|]; try discriminate;
        destruct args; try discriminate; inv_all; use_e IHe; fin.
    + (* match *)
      inv_all. destruct (ty_of (fst a)) eqn:Ety; try discriminate; inv_all;
      (destruct (fst a0) as [|[? ?] ?] eqn:E0; [discriminate|]; inv_all; cbn [snd];
       match goal with H1 : mapM_st _ _ _ = COk ?a0 |- st_env (snd ?a0) = _ =>
         apply mapM_st_same in H1;
         [use_e IHe; fin
         |intros st0 pc r0 H0; inv_all; cbn [snd fst st_env with_env];
          match goal with Hp : check_pattern _ _ _ _ = _, He : Infer.check_expr _ _ _ _ _ = _ |- _ =>
            apply check_pattern_tl in Hp; apply IHe in He; cbn [st_env with_env] in He;
            change env_pop with (@tl cscope); rewrite He, Hp; reflexivity end] end).
    + destruct o; inv_all; use_e IHe; fin.
    + (* binary operators *)
      inv_all. destruct o; inv_all;
        try (match goal with x : texpr * texpr * cty |- _ => destruct x as [[? ?] ?] end; inv_all);
        try (destruct (ty_of (fst a)); try discriminate; destruct (ty_of (fst a0)); try discriminate; inv_all);
        use_e IHe; fin.
    + (* block *)
      apply cbind_ok in H. destruct H as [[[body ty] st'] [H1 H]]. cbv beta iota in H. inv_all.
      cbn [snd st_env with_env]. apply IHb in H1. cbn [snd st_env with_env env_push tl] in H1.
      change env_pop with (@tl cscope). assumption.
    + (* call *)
      apply cbind_ok in H. destruct H as [st1 [H1 H]]. cbv beta in H.
      assert (Hst1 : st_env st1 = st_env st).
      { destruct (negb _) in H1; [|inv_all; reflexivity].
        destruct (find _ (d_fns D)); [|inv_all; reflexivity].
        apply cbind_ok in H1. destruct H1 as [[fd1 st2] [H1 H2]]. cbv beta in H2. inv_all.
        apply IHf in H1. cbn [snd st_env] in *. exact H1. }
      clear H1.
      destruct (assocL f0 (st_typed st1)); [|discriminate].
      destruct (env_get (st_env st1) f0); [discriminate|]. inv_all. use_e IHe. fin.
    + discriminate.
    + inv_all. destruct a3 as [[? ?] ?]. inv_all. use_e IHe. fin.
    + inv_all. use_e IHe. fin.
    + inv_all. reflexivity.
  - (* statement lists *)
    intros st b r H. cbn [Infer.check_stmts] in H. fold (Infer.check_expr intern) (Infer.check_stmts intern) (Infer.check_block intern) (Infer.check_fn intern) (Infer.check_stmt intern) in H. eapply mapM_st_tl; [|exact H]. exact IHs.
  - (* blocks *)
    intros st b r H. cbn [Infer.check_block] in H. fold (Infer.check_expr intern) (Infer.check_stmts intern) (Infer.check_block intern) (Infer.check_fn intern) (Infer.check_stmt intern) in H. inv_all. cbn [snd].
    match goal with H1 : mapM_st _ _ _ = _ |- _ => apply (mapM_st_tl _ IHs) in H1; exact H1 end.
  - (* statements *)
    intros st s r H. destruct s; cbn [Infer.check_stmt] in H; fold (Infer.check_expr intern) (Infer.check_stmts intern) (Infer.check_block intern) (Infer.check_fn intern) (Infer.check_stmt intern) in H.
    + inv_all. cbn [snd st_env with_env].
      match goal with Hp : check_pattern _ _ _ _ = _ |- _ => apply check_pattern_tl in Hp; rewrite Hp end.
      use_e IHe. congruence.
    + inv_all. cbn [snd st_env with_env]. rewrite tl_env_let. use_e IHe. congruence.
    + destruct (env_get (st_env st) x) as [[t [|]]|]; try discriminate. inv_all.
      destruct a as [[tas t'] st1]. inv_all.
      match goal with H1 : accs_loop _ _ _ _ _ _ = _ |- _ => apply (accs_loop_same _ _ _ IHe) in H1 end.
      use_e IHe. fin.
    + inv_all. cbn [snd st_env with_env]. change env_pop with (@tl cscope).
      match goal with Hp : check_pattern _ _ _ _ = _, Hb : Infer.check_stmts _ _ _ _ _ = _ |- _ =>
        apply check_pattern_tl in Hp; apply IHss in Hb; cbn [st_env with_env env_push tl] in * end.
      use_e IHe. congruence.
    + inv_all. use_e IHe. fin.
  - (* functions *)
    intros st fd r H. cbn [Infer.check_fn] in H. fold (Infer.check_expr intern) (Infer.check_stmts intern) (Infer.check_block intern) (Infer.check_fn intern) (Infer.check_stmt intern) in H. inv_all.
    destruct a0 as [[body ?] st1]. inv_all. reflexivity.
Qed.

(* an identifier bound inside a block / branch / loop body / match arm / callee is not visible
   after it, and mutability does not leak: after ANY accepted expression (in particular a block
   that shadows x with a `let mut`), every name resolves exactly as before *)
Corollary scope_does_not_leak f D st e e' st' x :
  check_expr f D st e = COk (e', st') -> env_get (st_env st') x = env_get (st_env st) x.
Proof. intro H. apply (proj1 (check_env f D)) in H. cbn [snd] in H. rewrite H. reflexivity. Qed.

(* a `for` loop binds nothing that is visible afterwards *)
Corollary for_does_not_leak f D st p e body s' st' :
  check_stmt f D st (XSForEach p e body) = COk (s', st') -> st_env st' = st_env st.
Proof.
  destruct f as [|f]; [discriminate|]. cbn [Infer.check_stmt]. intro H. fold (Infer.check_expr intern) (Infer.check_stmts intern) (Infer.check_block intern) (Infer.check_fn intern) (Infer.check_stmt intern) in H. inv_all. cbn [st_env with_env].
  change env_pop with (@tl cscope).
  match goal with Hp : check_pattern _ _ _ _ = _, Hb : Infer.check_stmts _ _ _ _ _ = _, He : Infer.check_expr _ _ _ _ _ = _ |- _ =>
    apply check_pattern_tl in Hp; apply (proj1 (proj2 (check_env f D))) in Hb;
    apply (proj1 (check_env f D)) in He; cbn [st_env with_env env_push tl] in * end.
  congruence.
Qed.

(* hence: a name that is unbound before an expression / a `for` statement is still unbound after it *)
Corollary unbound_after_block f f' D st b e' st' x :
  check_expr f D st (XBlock b) = COk (e', st') ->
  env_get (st_env st) x = None -> assocL x (d_consts D) = None ->
  check_expr (S f') D st' (XIdentifier x) = CErr E_UnknownIdentifier.
Proof.
  intros H Hx Hc. apply unknown_identifier_rejected; [|exact Hc].
  rewrite (scope_does_not_leak _ _ _ _ _ _ x H). exact Hx.
Qed.

End Scoping.

(* ================================================================== T1: soundness w.r.t. Lang/Wt.v is FALSE *)

(* `check_program .. P = COk P' -> Wt.wt_program P' = true` does not hold: three accepted
   programs whose typed tree is rejected by the re-checker (each confirmed on the real
   compiler, see InferExamples.v):
     pub fn main(x: u8) -> u8 { let y = 1 + 2; y + x }           (identifier re-typed at its use)
     pub fn main(x: u8) -> u8 { let z = [1, 2, 3][0] + x; z }    (access node re-typed over 32-bit elements)
     pub fn main(x: u8) -> u8 { let y = 5000000000; x }          (literal never range-checked)
   (`let y = 1 + 2 + x; y`, P_retype2, was a fourth witness until fix 64720dd: unify now constrains a compound
   operand deeply, InferExamples.retype2_now_wt) *)
Theorem check_sound_refuted :
  forall P, In P [P_retype; P_retype3; P_big] ->
  exists P', check_program ex_intern 50 P = COk P' /\ Wt.wt_program P' = false.
Proof.
  intros P HP. cbn [In] in HP.
  destruct HP as [<-|[<-|[<-|[]]]]; eexists; (split; [vm_compute; reflexivity|vm_compute; reflexivity]).
Qed.

(* ================================================================== T3 *)

(* determinism is by construction (the checker is a function); a rejected program is never
   also accepted *)
Lemma check_program_deterministic intern f P r1 r2 :
  check_program intern f P = r1 -> check_program intern f P = r2 -> r1 = r2.
Proof. congruence. Qed.

Print Assumptions cty_eqb_eq.
Print Assumptions check_type_ty.
Print Assumptions unify_ty.
Print Assumptions unify_incompat.
Print Assumptions check_type_bool.
Print Assumptions unknown_identifier_rejected.
Print Assumptions if_cond_not_bool_rejected.
Print Assumptions if_branches_differ_rejected.
Print Assumptions operands_differ_rejected.
Print Assumptions logical_non_bool_rejected.
Print Assumptions assign_unbound_rejected.
Print Assumptions assign_immutable_rejected.
Print Assumptions index_not_usize_rejected.
Print Assumptions index_non_array_rejected.
Print Assumptions tuple_index_out_of_range_rejected.
Print Assumptions shift_amount_not_u8_rejected.
Print Assumptions neg_unsigned_rejected.
Print Assumptions unknown_function_rejected.
Print Assumptions check_pattern_tl.
Print Assumptions check_env.
Print Assumptions scope_does_not_leak.
Print Assumptions for_does_not_leak.
Print Assumptions unbound_after_block.
Print Assumptions check_sound_refuted.
