(* C07 for the type checker, part 5: the depth of the types the checker infers.
   Phase 1: if all types in the environment are [wf D B] (unfold within depth B, every named type
   defined, no empty enum, arrays counted), the result of check_expr on e is [wf D (B + agg_e e)],
   agg_e = number of aggregate-literal nodes (array / tuple literals, repeats, ranges); a statement
   raises the level of the environment by agg_s. *)
From Coq Require Import Lia Bool.
From GV Require Import Base.Util Front.Scan Front.ParseExpr Check.UAst Check.Infer Check.InferProofs
  Check.InferTotal Check.InferFuel Check.InferFuel2 Check.InferFuel3 Check.InferFuel4.
From GV Require Exhaust.Pat Exhaust.Useful Exhaust.UsefulProofs.
Local Open Scope nat_scope.

(* like ctok, but closed under taking the element type of an array *)
Fixpoint wf (D : defs) (d : nat) (t : cty) {struct d} : bool :=
  match d with
  | O => false
  | S d' =>
      match t with
      | CArray el _ => wf D d' el
      | CTuple ts => forallb (wf D d') ts
      | CStruct n => match assocL n (d_structs D) with
                     | Some fts => forallb (fun ft : list N * cty => wf D d' (snd ft)) fts
                     | None => false
                     end
      | CEnum n => match assocL n (d_enums D) with
                   | Some vs => match vs with [] => false | _ => true end &&
                                forallb (fun v : list N * option (list cty) =>
                                           match snd v with Some ts => forallb (wf D d') ts | None => true end) vs
                   | None => false
                   end
      | _ => true
      end
  end.

Lemma forallb_impl {A} (p q : A -> bool) l : (forall x, p x = true -> q x = true) -> forallb p l = true -> forallb q l = true.
Proof. intros H Hp. apply forallb_forall. intros x Hx. apply H. exact (proj1 (forallb_forall p l) Hp x Hx). Qed.

Lemma wf_S D : forall d t, wf D d t = true -> wf D (S d) t = true.
Proof.
  induction d as [|d IH]; intros t H; [discriminate|].
  cbn [wf] in H. change (wf D (S (S d)) t) with
    (match t with
     | CArray el _ => wf D (S d) el
     | CTuple ts => forallb (wf D (S d)) ts
     | CStruct n => match assocL n (d_structs D) with
                    | Some fts => forallb (fun ft : list N * cty => wf D (S d) (snd ft)) fts | None => false end
     | CEnum n => match assocL n (d_enums D) with
                  | Some vs => match vs with [] => false | _ => true end &&
                               forallb (fun v : list N * option (list cty) =>
                                          match snd v with Some ts => forallb (wf D (S d)) ts | None => true end) vs
                  | None => false end
     | _ => true
     end).
  destruct t as [|u|s|el n|ts|n|n]; try reflexivity.
  - exact (IH _ H).
  - exact (forallb_impl _ _ _ IH H).
  - destruct (assocL n (d_structs D)); [|discriminate]. eapply forallb_impl; [|exact H]. intros x Hx. exact (IH _ Hx).
  - destruct (assocL n (d_enums D)); [|discriminate]. apply andb_true_iff in H. destruct H as [H1 H2]. rewrite H1. cbn [andb].
    eapply forallb_impl; [|exact H2]. intros x Hx. cbv beta in Hx |- *. destruct (snd x); [|reflexivity]. exact (forallb_impl _ _ _ IH Hx).
Qed.

Lemma wf_le D d d' t : d <= d' -> wf D d t = true -> wf D d' t = true.
Proof. induction 1 as [|m Hle IH]; [auto|]. intro Hw. apply wf_S. auto. Qed.

Lemma wf_pos D d t : wf D d t = true -> 1 <= d.
Proof. destruct d; [discriminate|lia]. Qed.

Lemma wf_ctok D : forall d t, wf D d t = true -> ctok D d t = true.
Proof.
  induction d as [|d IH]; intros t H; [discriminate|]. cbn [wf] in H. cbn [ctok].
  destruct t as [|u|s|el n|ts|n|n]; try reflexivity.
  - exact (forallb_impl _ _ _ IH H).
  - destruct (assocL n (d_structs D)); [|discriminate]. eapply forallb_impl; [|exact H]. intros x Hx. exact (IH _ Hx).
  - destruct (assocL n (d_enums D)); [|discriminate]. apply andb_true_iff in H. destruct H as [H1 H2]. rewrite H1. cbn [andb].
    eapply forallb_impl; [|exact H2]. intros x Hx. cbv beta in Hx |- *. destruct (snd x); [|reflexivity]. exact (forallb_impl _ _ _ IH Hx).
Qed.

(* components *)
Lemma wf_arr D d el n : wf D d (CArray el n) = true -> wf D d el = true.
Proof. destruct d; [discriminate|]. intro H. apply wf_S. exact H. Qed.
Lemma wf_tup D d ts t : wf D d (CTuple ts) = true -> In t ts -> wf D d t = true.
Proof. destruct d; [discriminate|]. intros H Hin. apply wf_S. exact (proj1 (forallb_forall _ _) H t Hin). Qed.
Lemma wf_struct D d n def f t : wf D d (CStruct n) = true -> assocL n (d_structs D) = Some def -> assocL f def = Some t -> wf D d t = true.
Proof.
  destruct d; [discriminate|]. cbn [wf]. intros H Ha Hf. rewrite Ha in H. apply wf_S.
  exact (proj1 (forallb_forall _ _) H (f, t) (assocL_In' _ _ _ Hf)).
Qed.
Lemma wf_enum D d n vs v ts t : wf D d (CEnum n) = true -> assocL n (d_enums D) = Some vs -> assocL v vs = Some (Some ts) -> In t ts -> wf D d t = true.
Proof.
  destruct d; [discriminate|]. cbn [wf]. intros H Ha Hv Hin. rewrite Ha in H. apply andb_true_iff in H. destruct H as [_ H]. apply wf_S.
  pose proof (proj1 (forallb_forall _ _) H (v, Some ts) (assocL_In' _ _ _ Hv)) as Hx. cbn [snd] in Hx.
  exact (proj1 (forallb_forall _ _) Hx t Hin).
Qed.
Lemma wf_num D d t : 1 <= d -> match t with CBool | CUnsigned _ | CSigned _ => True | _ => False end -> wf D d t = true.
Proof. destruct d; [lia|]. destruct t; intros _ H; try destruct H; reflexivity. Qed.
Lemma wf_unit D d : 1 <= d -> wf D d unit_cty = true.
Proof. destruct d; [lia|]. reflexivity. Qed.

Lemma nthN_In {A} (l : list A) i x : nthN l i = Some x -> In x l.
Proof.
  rewrite nthN_spec. apply nth_error_In.
Qed.

(* the number of aggregate-literal nodes *)
Fixpoint agg_e (e : xexpr) : nat :=
  match e with
  | XArrayLiteral es | XTupleLiteral es => S (list_sum (map agg_e es))
  | XArrayRepeatLiteral e _ => S (agg_e e)
  | XRange _ _ _ => 1
  | XArrayAccess a i => agg_e a + agg_e i
  | XTupleAccess e _ | XStructAccess e _ | XUnaryOp _ e | XCast _ e => agg_e e
  | XStructLiteral _ fs => list_sum (map (fun f => agg_e (snd f)) fs)
  | XEnumLiteral _ _ (Some es) | XFnCall _ es => list_sum (map agg_e es)
  | XMatch e arms => agg_e e + list_sum (map (fun a => agg_e (snd a)) arms)
  | XOp _ l r => agg_e l + agg_e r
  | XBlock b => list_sum (map agg_s b)
  | XIf c a b => agg_e c + agg_e a + agg_e b
  | _ => 0
  end
with agg_s (s : xstmt) : nat :=
  match s with
  | XSLet _ _ e | XSLetMut _ _ e | XSExpr e => agg_e e
  | XSVarAssign _ accs e => list_sum (map agg_a accs) + agg_e e
  | XSForEach _ e body => agg_e e + list_sum (map agg_s body)
  end
with agg_a (a : xaccessor) : nat :=
  match a with XAArray i => agg_e i | _ => 0 end.

Lemma in_list_sum {A} (g : A -> nat) l x : In x l -> g x <= list_sum (map g l).
Proof.
  induction l as [|y l IH]; [intros []|]. change (list_sum (map g (y :: l))) with (g y + list_sum (map g l)).
  intros [->|H]; [lia|]. specialize (IH H). lia.
Qed.

Section Depth.
Variable D : defs.
Variable B0 : nat.

(* the declared types that occur (annotations, casts, literals of named types) are wf at B0 *)
Definition ann_t (u : utype) : bool := match concrete_of D u with COk t => wf D B0 t | _ => true end.
Definition ann_o (o : option utype) : bool := match o with Some u => ann_t u | None => true end.

Fixpoint ann_e (e : xexpr) : bool :=
  match e with
  | XArrayLiteral es | XTupleLiteral es | XFnCall _ es | XJoin es => forallb ann_e es
  | XArrayRepeatLiteral e _ | XTupleAccess e _ | XStructAccess e _ | XUnaryOp _ e => ann_e e
  | XCast u e => ann_t u && ann_e e
  | XArrayAccess a i => ann_e a && ann_e i
  | XStructLiteral n fs => wf D B0 (CStruct n) && forallb (fun f => ann_e (snd f)) fs
  | XEnumLiteral n _ args => wf D B0 (CEnum n) && match args with Some es => forallb ann_e es | None => true end
  | XMatch e arms => ann_e e && forallb (fun a => ann_e (snd a)) arms
  | XOp _ l r => ann_e l && ann_e r
  | XBlock b => forallb ann_s b
  | XIf c a b => ann_e c && ann_e a && ann_e b
  | _ => true
  end
with ann_s (s : xstmt) : bool :=
  match s with
  | XSLet _ o e | XSLetMut _ o e => ann_o o && ann_e e
  | XSExpr e => ann_e e
  | XSVarAssign _ accs e => forallb ann_a accs && ann_e e
  | XSForEach _ e body => ann_e e && forallb ann_s body
  end
with ann_a (a : xaccessor) : bool :=
  match a with XAArray i => ann_e i | _ => true end.

Definition ann_fn (fd : ufndef) : bool :=
  forallb (fun p => ann_t (upa_ty p)) (uf_params fd) && ann_t (uf_ty fd) && forallb ann_s (uf_body fd).

Definition env_all (B : nat) (g : cenv) : Prop :=
  Forall (Forall (fun b : list N * (cty * bool) => wf D B (fst (snd b)) = true)) g.
Definition typed_ok (l : list (list N * tfndef)) : Prop :=
  Forall (fun nd : list N * tfndef => wf D B0 (tf_ty (snd nd)) = true) l.
Definition SInv (B : nat) (st : cstate) : Prop :=
  B0 <= B /\ env_all B (st_env st) /\ typed_ok (st_typed st).

Lemma env_all_le B B' g : B <= B' -> env_all B g -> env_all B' g.
Proof.
  intros Hle H. unfold env_all in *. eapply Forall_impl; [|exact H]. intros s Hs.
  eapply Forall_impl; [|exact Hs]. intros b Hb. exact (wf_le D _ _ _ Hle Hb).
Qed.
Lemma env_all_get B g x t m : env_all B g -> env_get g x = Some (t, m) -> wf D B t = true.
Proof.
  induction 1 as [|s g Hs Hg IH]; cbn [env_get]; [discriminate|].
  destruct (assocL x s) as [v|] eqn:Ea; [|exact IH]. intro H. inversion H; subst.
  apply assocL_In' in Ea. rewrite Forall_forall in Hs. exact (Hs _ Ea).
Qed.
Lemma env_all_let B g x t m : env_all B g -> wf D B t = true -> env_all B (env_let g x t m).
Proof.
  intros H Ht. destruct g as [|s r]; cbn [env_let].
  - constructor; [|constructor]. constructor; [exact Ht|constructor].
  - inversion H; subst. constructor; [|assumption]. constructor; [exact Ht|assumption].
Qed.
Lemma env_all_push B g : env_all B g -> env_all B (env_push g).
Proof. intro H. constructor; [constructor|exact H]. Qed.
Lemma env_all_tl B g : env_all B g -> env_all B (tl g).
Proof. intro H. destruct g; [exact H|]. inversion H; assumption. Qed.
Lemma env_all_tl_eq B g g' : tl g' = tl g -> env_all B g' -> env_all B (tl g).
Proof. intros <- H. apply env_all_tl. exact H. Qed.

Lemma SInv_le B B' st : B <= B' -> SInv B st -> SInv B' st.
Proof. intros Hle (H1 & H2 & H3). split; [lia|]. split; [exact (env_all_le _ _ _ Hle H2)|exact H3]. Qed.

(* ---------------------------------------------------------------- retyping keeps wf *)
Lemma pick_elem_ty_in first tys : pick_elem_ty first tys = first \/ In (pick_elem_ty first tys) tys.
Proof.
  unfold pick_elem_ty.
  set (t1 := if is_uU first then match find (fun t => negb (cty_eqb t first)) tys with Some t => t | None => first end else first).
  assert (H1 : t1 = first \/ In t1 tys).
  { unfold t1. destruct (is_uU first); [|left; reflexivity].
    destruct (find (fun t => negb (cty_eqb t first)) tys) eqn:Ef; [|left; reflexivity]. right. exact (proj1 (find_some _ _ Ef)). }
  destruct (is_sU t1); [|exact H1].
  destruct (find (fun t => negb (cty_eqb t t1) && negb (is_uU t)) tys) eqn:Ef; [|exact H1]. right. exact (proj1 (find_some _ _ Ef)).
Qed.

Lemma unify_wf f a b a' b' t d : unify f a b = COk (a', b', t) -> wf D d (ty_of a) = true -> wf D d t = true.
Proof.
  unfold unify. intros H Hw. pose proof (wf_pos _ _ _ Hw) as Hd.
  destruct (cty_eqb (ty_of a) (ty_of b)); [inversion H; subst; exact Hw|].
  destruct (ty_of a) as [|[]|[]| | | |]; destruct (ty_of b) as [|[]|[]| | | |]; try discriminate H;
    apply cbind_ok in H; destruct H as [? [_ H]]; inversion H; subst; apply wf_num; try exact Hd; exact I.
Qed.

Lemma coc_s_ty e s e' : check_or_constrain_signed e s = COk e' -> ty_of e' = CSigned s.
Proof.
  unfold check_or_constrain_signed. destruct (_ && _ && _); [discriminate|].
  match goal with |- (if ?c then _ else _) = _ -> _ => destruct c; [discriminate|] end.
  match goal with |- (if ?c then _ else _) = _ -> _ => destruct c; [discriminate|] end.
  intro H. inversion H. apply ty_of_set_ty.
Qed.

Lemma constrain_signed_ty f e s e' : constrain_type f e (CSigned s) = COk e' -> ty_of e' = CSigned s \/ ty_of e' = ty_of e.
Proof.
  destruct f as [|f]; [discriminate|]. cbn [constrain_type]. intro H. apply cbind_ok in H. destruct H as [e1 [H1 H2]].
  inversion H2; subst; clear H2. rewrite ty_of_set_ty.
  assert (Ht : ty_of e1 = CSigned s \/ ty_of e1 = ty_of e).
  { destruct e as [i ty]. cbn [inner_of ty_of] in *.
    destruct i; try (left; exact (coc_s_ty _ _ _ H1)); try (right; inv_all; reflexivity).
    all: try (destruct u; try (left; exact (coc_s_ty _ _ _ H1))).
    all: try (destruct o; right; inv_all; reflexivity).
    destruct t; left; exact (coc_s_ty _ _ _ H1). }
  cbn [overwrite_ty]. destruct (is_uU (ty_of e1) || is_sU (ty_of e1)); [left; reflexivity|exact Ht].
Qed.

Lemma coc_s_deep_ty f e s e' : coc_signed_deep f e s = COk e' -> ty_of e' = CSigned s \/ ty_of e' = ty_of e.
Proof.
  unfold coc_signed_deep. destruct (_ && _ && _); [discriminate|]. destruct (_ && _).
  - apply constrain_signed_ty.
  - intro H. left. exact (coc_s_ty _ _ _ H).
Qed.

Lemma wf_i32 d t : wf D d t = true -> wf D d (i32_if_unspec t) = true.
Proof. intro H. unfold i32_if_unspec. destruct (_ || _); [|exact H]. apply wf_num; [exact (wf_pos _ _ _ H)|exact I]. Qed.

Lemma constrain_to_i32_wf f b b' d : constrain_to_i32 f b = COk b' -> wf D d (ty_of b) = true -> wf D d (ty_of b') = true.
Proof.
  destruct f as [|f]; [discriminate|]. cbn [constrain_to_i32]. intros H Hw.
  apply cbind_ok in H. destruct H as [b1 [H1 H]]. apply cbind_ok in H. destruct H as [b2 [H2 H]].
  inversion H; subst; clear H. rewrite ty_of_set_ty.
  assert (Hw1 : wf D d (ty_of b1) = true).
  { destruct (is_uU (ty_of b) || is_sU (ty_of b)); [|inversion H1; subst; exact Hw].
    destruct (coc_s_deep_ty _ _ _ _ H1) as [E|E]; rewrite E; [|exact Hw]. apply wf_num; [exact (wf_pos _ _ _ Hw)|exact I]. }
  assert (E2 : ty_of b2 = ty_of b1).
  { destruct (inner_of b1); try (inversion H2; reflexivity); apply cbind_ok in H2; destruct H2 as [? [_ H2]]; inversion H2; reflexivity. }
  rewrite E2. destruct d as [|d]; [discriminate|]. destruct (ty_of b1) as [| | |el n|ts| |]; try exact Hw1.
  - cbn [wf] in *. destruct d as [|d']; [discriminate|]. apply wf_i32. exact Hw1.
  - cbn [wf] in *. rewrite forallb_forall in *. intros x Hx. apply in_map_iff in Hx. destruct Hx as [y [<- Hy]].
    destruct d as [|d']; [discriminate (Hw1 _ Hy)|]. apply wf_i32. exact (Hw1 _ Hy).
Qed.

(* ---------------------------------------------------------------- patterns bind components of the type *)
Definition pat_wf_ok (p : upattern) : Prop := forall B g ty r,
  wf D B ty = true -> env_all B g -> check_pattern D g p ty = COk r -> env_all B (snd r).

Lemma fields_loop_wf fs : Forall pat_wf_ok fs ->
  forall B ts g r, Forall (fun t => wf D B t = true) ts -> env_all B g ->
    (fix go (fs : list upattern) (ts : list cty) (g : cenv) : cres (list tpattern * cenv) :=
       match fs, ts with
       | fp :: fr, t :: tr =>
           do r1 <- check_pattern D g fp t; do r2 <- go fr tr (snd r1); COk (fst r1 :: fst r2, snd r2)
       | _, _ => COk ([], g)
       end) fs ts g = COk r -> env_all B (snd r).
Proof.
  induction 1 as [|q fs Hq Hfs IH]; intros B ts g r Hts Hg H.
  - inversion H; subst. exact Hg.
  - destruct ts as [|t ts]; [inversion H; subst; exact Hg|]. inversion Hts as [|? ? Ht Hts']; subst.
    apply cbind_ok in H. destruct H as [r1 [H1 H]]. apply cbind_ok in H. destruct H as [r2 [H2 H]].
    inversion H; subst; clear H. cbn [snd]. eapply IH; [exact Hts'| |exact H2]. eapply Hq; [exact Ht|exact Hg|exact H1].
Qed.

Lemma struct_loop_wf (sdef : list (list N * cty)) fs : Forall (fun f : list N * upattern => pat_wf_ok (snd f)) fs ->
  forall B seen g r, (forall f t, assocL f sdef = Some t -> wf D B t = true) -> env_all B g ->
    (fix go (seen : list (list N)) (fs : list (list N * upattern)) (g : cenv) : cres (list (list N * tpattern) * cenv) :=
       match fs with
       | [] => COk ([], g)
       | (field_name, field_value) :: fr =>
           if memL field_name seen then CErr E_PatternDoesNotMatchType else
           match assocL field_name sdef with
           | Some field_type =>
               do r1 <- check_pattern D g field_value field_type;
               do r2 <- go (field_name :: seen) fr (snd r1);
               COk ((field_name, fst r1) :: fst r2, snd r2)
           | None => CErr E_UnknownStructField
           end
       end) seen fs g = COk r -> env_all B (snd r).
Proof.
  induction 1 as [|[fname q] fs Hq Hfs IH]; intros B seen g r Hdef Hg H.
  - inversion H; subst. exact Hg.
  - destruct (memL fname seen); [discriminate|]. destruct (assocL fname sdef) as [ft|] eqn:Ea; [|discriminate].
    apply cbind_ok in H. destruct H as [r1 [H1 H]]. apply cbind_ok in H. destruct H as [r2 [H2 H]].
    inversion H; subst; clear H. cbn [snd] in *. eapply IH; [exact Hdef| |exact H2]. eapply Hq; [|exact Hg|exact H1]. exact (Hdef _ _ Ea).
Qed.

Lemma check_pattern_wf : forall p, pat_wf_ok p.
Proof.
  induction p using upattern_ind'; intros B g ty r Hty Hg HH; cbn [check_pattern] in HH.
  - inversion HH; subst. cbn [snd]. apply env_all_let; assumption.
  - destruct ty; inversion HH; subst; exact Hg.
  - destruct ty; inversion HH; subst; exact Hg.
  - inv_all. exact Hg.
  - inv_all. exact Hg.
  - apply cbind_ok in HH. destruct HH as [fts [Hf HH]]. destruct ty; try discriminate Hf. inversion Hf; subst.
    destruct (negb _); [discriminate|]. apply cbind_ok in HH. destruct HH as [r2 [Hl HH]]. inversion HH; subst; clear HH.
    cbn [snd]. eapply (fields_loop_wf ps H B fts); [|exact Hg|exact Hl].
    apply Forall_forall. intros t Ht. exact (wf_tup D _ _ _ Hty Ht).
  - apply cbind_ok in HH. destruct HH as [sdn [Hf HH]]. destruct ty; try discriminate Hf. inversion Hf; subst.
    destruct (negb (list_eqb sdn n)) eqn:En; [discriminate|]. apply negb_false_iff in En. apply list_eqb_eq in En. subst sdn.
    destruct (assocL n (d_structs D)) as [sdef|] eqn:Ea; [|discriminate].
    apply cbind_ok in HH. destruct HH as [r2 [Hl HH]].
    match type of HH with (if ?c then _ else _) = _ => destruct c; [discriminate|] end.
    inversion HH; subst; clear HH. cbn [snd]. eapply (struct_loop_wf sdef fs H B); [|exact Hg|exact Hl].
    intros f t Hft. exact (wf_struct D _ _ _ _ _ Hty Ea Hft).
  - apply cbind_ok in HH. destruct HH as [sdn [Hf HH]]. destruct ty; try discriminate Hf. inversion Hf; subst.
    destruct (negb (list_eqb sdn n)) eqn:En; [discriminate|]. apply negb_false_iff in En. apply list_eqb_eq in En. subst sdn.
    destruct (assocL n (d_structs D)) as [sdef|] eqn:Ea; [|discriminate].
    apply cbind_ok in HH. destruct HH as [r2 [Hl HH]].
    match type of HH with (if ?c then _ else _) = _ => destruct c; [discriminate|] end.
    inversion HH; subst; clear HH. cbn [snd]. eapply (struct_loop_wf sdef fs H B); [|exact Hg|exact Hl].
    intros f t Hft. exact (wf_struct D _ _ _ _ _ Hty Ea Hft).
  - destruct ty; try discriminate HH. destruct (negb _); [discriminate|]. destruct (assocL e (d_enums D)); [|discriminate].
    destruct (assocL v l) as [[?|]|]; try discriminate HH. inversion HH; subst; exact Hg.
  - destruct ty as [| | | | | |n]; try discriminate HH. destruct (negb (list_eqb n e)) eqn:En; [discriminate|].
    apply negb_false_iff in En. apply list_eqb_eq in En. subst n.
    destruct (assocL e (d_enums D)) as [vs|] eqn:Ea; [|discriminate].
    destruct (assocL v vs) as [[pts|]|] eqn:Ev; try discriminate HH. destruct (negb _); [discriminate|].
    apply cbind_ok in HH. destruct HH as [r2 [Hl HH]]. inversion HH; subst; clear HH.
    cbn [snd]. eapply (fields_loop_wf ps H B pts); [|exact Hg|exact Hl].
    apply Forall_forall. intros t Ht. exact (wf_enum D _ _ _ _ _ _ Hty Ea Ev Ht).
  - inv_all. exact Hg.
  - inv_all. exact Hg.
Qed.

(* ---------------------------------------------------------------- phase 1: the five functions *)
Variable intern : list N -> N.
Hypothesis HB0 : 1 <= B0.
Hypothesis Hconsts : forall x t, assocL x (d_consts D) = Some t -> wf D B0 t = true.
Hypothesis Hfns : forall fd, In fd (d_fns D) -> ann_fn fd = true.
Notation check_expr := (check_expr intern).
Notation check_stmt := (check_stmt intern).
Notation check_stmts := (check_stmts intern).
Notation check_block := (check_block intern).
Notation check_fn := (check_fn intern).

Ltac refold H :=
  fold (Infer.check_expr intern) (Infer.check_stmts intern) (Infer.check_block intern)
       (Infer.check_fn intern) (Infer.check_stmt intern) in H.

Definition sumE (es : list xexpr) : nat := list_sum (map agg_e es).
Definition sumS (b : list xstmt) : nat := list_sum (map agg_s b).
Definition expr_ty_ok (B : nat) (s : tstmt) : Prop := forall e, s = TSExpr e -> wf D B (ty_of e) = true.

Definition GE (f : nat) : Prop := forall B st e r, ann_e e = true -> SInv B st -> check_expr f D st e = COk r ->
  wf D (B + agg_e e) (ty_of (fst r)) = true /\ SInv B (snd r).
Definition GSS (f : nat) : Prop := forall B st b r, forallb ann_s b = true -> SInv B st -> check_stmts f D st b = COk r ->
  SInv (B + sumS b) (snd r) /\ Forall (expr_ty_ok (B + sumS b)) (fst r).
Definition GB (f : nat) : Prop := forall B st b r, forallb ann_s b = true -> SInv B st -> check_block f D st b = COk r ->
  SInv (B + sumS b) (snd r) /\ wf D (B + sumS b) (snd (fst r)) = true.
Definition GS (f : nat) : Prop := forall B st s r, ann_s s = true -> SInv B st -> check_stmt f D st s = COk r ->
  SInv (B + agg_s s) (snd r) /\ expr_ty_ok (B + agg_s s) (fst r).
Definition GF (f : nat) : Prop := forall st fd r, In fd (d_fns D) -> typed_ok (st_typed st) -> check_fn f D st fd = COk r ->
  typed_ok (st_typed (snd r)) /\ wf D B0 (tf_ty (fst r)) = true /\ st_env (snd r) = st_env st.

Lemma sumE_cons e es : sumE (e :: es) = agg_e e + sumE es. Proof. reflexivity. Qed.
Lemma sumS_cons s b : sumS (s :: b) = agg_s s + sumS b. Proof. reflexivity. Qed.

Lemma exprs_wf f : GE f -> forall es B st r, forallb ann_e es = true -> SInv B st ->
  mapM_st (check_expr f D) st es = COk r ->
  Forall (fun te => wf D (B + sumE es) (ty_of te) = true) (fst r) /\ SInv B (snd r).
Proof.
  intro HE. induction es as [|e es IH]; intros B st r Hn HS H; cbn [mapM_st] in H.
  - inversion H; subst. split; [constructor|exact HS].
  - cbn [forallb] in Hn. apply andb_true_iff in Hn. destruct Hn as [Hn1 Hn2].
    apply cbind_ok in H. destruct H as [r1 [H1 H]]. apply cbind_ok in H. destruct H as [r2 [H2 H]]. inversion H; subst; clear H.
    destruct (HE _ _ _ _ Hn1 HS H1) as [Hw HS1]. destruct (IH _ _ _ Hn2 HS1 H2) as [Hall HS2].
    cbn [fst snd]. rewrite sumE_cons. split; [|exact HS2]. constructor.
    + eapply wf_le; [|exact Hw]. lia.
    + eapply Forall_impl; [|exact Hall]. intros te Hte. eapply wf_le; [|exact Hte]. lia.
Qed.

Lemma expr_ty_ok_le B B' s : B <= B' -> expr_ty_ok B s -> expr_ty_ok B' s.
Proof. intros Hle H e He. eapply wf_le; [exact Hle|]. exact (H e He). Qed.

Lemma stmts_wf f : GS f -> forall b B st r, forallb ann_s b = true -> SInv B st ->
  mapM_st (check_stmt f D) st b = COk r ->
  SInv (B + sumS b) (snd r) /\ Forall (expr_ty_ok (B + sumS b)) (fst r).
Proof.
  intro HS0. induction b as [|s b IH]; intros B st r Hn HS H; cbn [mapM_st] in H.
  - inversion H; subst. cbn [fst snd]. split; [eapply SInv_le; [|exact HS]; lia|constructor].
  - cbn [forallb] in Hn. apply andb_true_iff in Hn. destruct Hn as [Hn1 Hn2].
    apply cbind_ok in H. destruct H as [r1 [H1 H]]. apply cbind_ok in H. destruct H as [r2 [H2 H]]. inversion H; subst; clear H.
    destruct (HS0 _ _ _ _ Hn1 HS H1) as [HS1 Hx1]. destruct (IH _ _ _ Hn2 HS1 H2) as [HS2 Hall].
    cbn [fst snd]. rewrite sumS_cons, Nat.add_assoc. split; [exact HS2|]. constructor; [|exact Hall].
    eapply expr_ty_ok_le; [|exact Hx1]. lia.
Qed.

Lemma accs_wf f : GE f -> forall accs B st t r, forallb ann_a accs = true -> SInv B st ->
  accs_loop (check_expr f D) f D st t accs = COk r -> SInv B (snd r).
Proof.
  intro HE. induction accs as [|a accs IH]; intros B st t r Hn HS H; cbn [accs_loop] in H.
  - inversion H; subst. exact HS.
  - cbn [forallb] in Hn. apply andb_true_iff in Hn. destruct Hn as [Hn1 Hn2].
    apply cbind_ok in H. destruct H as [[[ta t1] st1] [H1 H]]. cbv beta iota in H.
    apply cbind_ok in H. destruct H as [[[tas2 tf] st2] [H2 H]]. cbv beta iota in H. inversion H; subst; clear H. cbn [snd].
    assert (HS1 : SInv B st1).
    { destruct a; cbn [ann_a] in Hn1.
      - apply cbind_ok in H1. destruct H1 as [el [_ H1]]. apply cbind_ok in H1. destruct H1 as [ri [Hi H1]].
        apply cbind_ok in H1. destruct H1 as [i2 [_ H1]]. inversion H1; subst. exact (proj2 (HE _ _ _ _ Hn1 HS Hi)).
      - apply cbind_ok in H1. destruct H1 as [vts [_ H1]]. destruct (nthN vts index); inversion H1; subst; exact HS.
      - apply cbind_ok in H1. destruct H1 as [nm [_ H1]]. destruct (assocL nm (d_structs D)); [|discriminate].
        destruct (assocL field l); inversion H1; subst; exact HS. }
    exact (IH _ _ _ _ Hn2 HS1 H2).
Qed.

Lemma struct_lit_wf f sd : GE f -> forall fields B seen st r, forallb (fun fx : list N * xexpr => ann_e (snd fx)) fields = true -> SInv B st ->
  struct_lit_loop (check_expr f D) f sd seen st fields = COk r -> SInv B (snd r).
Proof.
  intro HE. induction fields as [|[fname fv] fields IH]; intros B seen st r Hn HS H; cbn [struct_lit_loop] in H.
  - inversion H; subst. exact HS.
  - cbn [forallb snd] in Hn. apply andb_true_iff in Hn. destruct Hn as [Hn1 Hn2].
    destruct (memL fname seen); [discriminate|]. destruct (assocL fname sd); [|discriminate].
    apply cbind_ok in H. destruct H as [r1 [H1 H]]. apply cbind_ok in H. destruct H as [tf [_ H]].
    apply cbind_ok in H. destruct H as [r2 [H2 H]]. inversion H; subst; clear H. cbn [snd].
    exact (IH _ _ _ _ Hn2 (proj2 (HE _ _ _ _ Hn1 HS H1)) H2).
Qed.

Lemma arms_wf f : GE f -> forall arms B ty0 st r, wf D B ty0 = true -> forallb (fun a : upattern * xexpr => ann_e (snd a)) arms = true -> SInv B st ->
  mapM_st (fun (st0 : cstate) (pc : upattern * xexpr) =>
             do rp <- check_pattern D (env_push (st_env st0)) (fst pc) ty0;
             do re <- check_expr f D (with_env st0 (snd rp)) (snd pc);
             COk ((fst rp, fst re), with_env (snd re) (env_pop (st_env (snd re))))) st arms = COk r ->
  Forall (fun pc : tpattern * texpr => wf D (B + list_sum (map (fun a : upattern * xexpr => agg_e (snd a)) arms)) (ty_of (snd pc)) = true) (fst r) /\ SInv B (snd r).
Proof.
  intro HE. induction arms as [|[p x] arms IH]; intros B ty0 st r Hty Hn HS H; cbn [mapM_st] in H.
  - inversion H; subst. split; [constructor|exact HS].
  - cbn [forallb snd] in Hn. apply andb_true_iff in Hn. destruct Hn as [Hn1 Hn2].
    apply cbind_ok in H. destruct H as [r1 [H1 H]]. apply cbind_ok in H. destruct H as [r2 [H2 H]]. inversion H; subst; clear H.
    apply cbind_ok in H1. destruct H1 as [rp [Hp H1]]. apply cbind_ok in H1. destruct H1 as [re [Hx H1]]. inversion H1; subst; clear H1.
    cbn [fst snd] in *. destruct HS as (HleB & HenvB & HtypB).
    assert (HSa : SInv B (with_env st (snd rp))).
    { split; [exact HleB|]. split; [|exact HtypB]. cbn [with_env st_env].
      exact (check_pattern_wf p B _ _ _ Hty (env_all_push _ _ HenvB) Hp). }
    destruct (HE _ _ _ _ Hn1 HSa Hx) as [Hw (_ & Henv2 & Htyp2)].
    assert (HSb : SInv B (with_env (snd re) (env_pop (st_env (snd re))))).
    { split; [exact HleB|]. split; [|exact Htyp2]. cbn [with_env st_env]. change env_pop with (@tl cscope). apply env_all_tl. exact Henv2. }
    destruct (IH _ _ _ _ Hty Hn2 HSb H2) as [Hall HS2].
    change (list_sum (map (fun a : upattern * xexpr => agg_e (snd a)) ((p, x) :: arms)))
      with (agg_e x + list_sum (map (fun a : upattern * xexpr => agg_e (snd a)) arms)).
    split; [|exact HS2]. constructor.
    + cbn [snd]. eapply wf_le; [|exact Hw]. lia.
    + eapply Forall_impl; [|exact Hall]. intros pc Hpc. eapply wf_le; [|exact Hpc]. lia.
Qed.

Lemma params_wf : forall ps seen g rp, forallb (fun p => ann_t (upa_ty p)) ps = true -> env_all B0 g ->
  (fix go (seen : list (list N)) (ps : list uparam) (g : cenv) : cres (list (bool * list N * cty) * cenv) :=
     match ps with
     | [] => COk ([], g)
     | p :: r =>
         if memL (upa_name p) seen then CErr E_DuplicateFnParam else
         do ty <- concrete_of D (upa_ty p);
         do r2 <- go (upa_name p :: seen) r (env_let g (upa_name p) ty (upa_mut p));
         COk ((upa_mut p, upa_name p, ty) :: fst r2, snd r2)
     end) seen ps g = COk rp -> env_all B0 (snd rp).
Proof.
  induction ps as [|p ps IH]; intros seen g rp Hn Hg H.
  - inversion H; subst. exact Hg.
  - cbn [forallb] in Hn. apply andb_true_iff in Hn. destruct Hn as [Hn1 Hn2].
    destruct (memL (upa_name p) seen); [discriminate|].
    apply cbind_ok in H. destruct H as [ty [Hty H]]. apply cbind_ok in H. destruct H as [r2 [H2 H]]. inversion H; subst; clear H.
    cbn [snd]. eapply IH; [exact Hn2| |exact H2]. apply env_all_let; [exact Hg|]. unfold ann_t in Hn1. rewrite Hty in Hn1. exact Hn1.
Qed.

Ltac bind_e H x st Hx := apply cbind_ok in H; destruct H as [[x st] [Hx H]]; cbv beta zeta in H; cbn [fst snd] in H.
Ltac splitn := repeat match goal with H : _ && _ = true |- _ => apply andb_true_iff in H; destruct H end.
Ltac wle Hw := eapply wf_le; [|exact Hw]; lia.

Lemma agg_e_block b : agg_e (XBlock b) = sumS b. Proof. reflexivity. Qed.
Lemma agg_s_for p e b : agg_s (XSForEach p e b) = agg_e e + sumS b. Proof. reflexivity. Qed.
Lemma ann_e_block b : ann_e (XBlock b) = forallb ann_s b. Proof. reflexivity. Qed.
Lemma ann_s_for p e b : ann_s (XSForEach p e b) = ann_e e && forallb ann_s b. Proof. reflexivity. Qed.

Theorem depth_all : forall f, GE f /\ GSS f /\ GB f /\ GS f /\ GF f.
Proof.
  induction f as [|f (IHe & IHss & IHb & IHs & IHf)].
  { split; [|split; [|split; [|split]]].
    - intros B st e r _ _ H; discriminate H.
    - intros B st b r _ _ H; discriminate H.
    - intros B st b r _ _ H; discriminate H.
    - intros B st s r _ _ H; discriminate H.
    - intros st fd r _ _ H; discriminate H. }
  split; [|split; [|split; [|split]]].
  - (* expressions *)
    intros B st e r Hn HS H.
    pose proof (proj1 (check_env intern (S f) D) st e r H) as Henv.
    pose proof HS as (HleB & HenvB & HtypB). assert (HB1 : 1 <= B) by lia.
    assert (Hsuff : wf D (B + agg_e e) (ty_of (fst r)) = true /\ typed_ok (st_typed (snd r)) ->
                    wf D (B + agg_e e) (ty_of (fst r)) = true /\ SInv B (snd r)).
    { intros [Ha Hb]. split; [exact Ha|]. split; [exact HleB|]. split; [rewrite Henv; exact HenvB|exact Hb]. }
    apply Hsuff. clear Hsuff Henv.
    destruct e; cbn [Infer.check_expr] in H; refold H; try discriminate H.
    + inversion H; subst. split; [apply wf_num; [lia|exact I]|exact HtypB].
    + inversion H; subst. split; [apply wf_num; [lia|exact I]|exact HtypB].
    + inversion H; subst. split; [apply wf_num; [lia|exact I]|exact HtypB].
    + inversion H; subst. split; [apply wf_num; [lia|exact I]|exact HtypB].
    + destruct (env_get (st_env st) s) as [[t m]|] eqn:Eg.
      * inversion H; subst. split; [|exact HtypB]. cbn [fst ty_of]. eapply wf_le; [|exact (env_all_get _ _ _ _ _ HenvB Eg)]. lia.
      * destruct (assocL s (d_consts D)) as [t|] eqn:Ec; inversion H; subst. split; [|exact HtypB].
        cbn [fst ty_of]. eapply wf_le; [|exact (Hconsts _ _ Ec)]. lia.
    + (* array literal *)
      cbn [ann_e] in Hn. apply cbind_ok in H. destruct H as [[es1 st1] [Hes H]]. cbn [fst snd] in H.
      destruct (exprs_wf f IHe _ _ _ _ Hn HS Hes) as [Hall (_ & _ & HT1)]. cbn [fst snd] in *.
      destruct es1 as [|first es1]; [discriminate|].
      apply cbind_ok in H. destruct H as [fl [_ H]]. inversion H; subst; clear H. split; [|exact HT1].
      assert (Hpt : wf D (B + sumE es) (pick_elem_ty (ty_of first) (map ty_of (first :: es1))) = true).
      { destruct (pick_elem_ty_in (ty_of first) (map ty_of (first :: es1))) as [E|E].
        - rewrite E. inversion Hall; assumption.
        - apply in_map_iff in E. destruct E as [te [Ete Hte]]. rewrite <- Ete. rewrite Forall_forall in Hall. exact (Hall _ Hte). }
      cbn [fst ty_of agg_e]. rewrite Nat.add_succ_r. cbn [wf]. exact Hpt.
    + (* array repeat *)
      cbn [ann_e] in Hn. bind_e H x1 st1 Hx. destruct (IHe _ _ _ _ Hn HS Hx) as [Hw (_ & _ & HT1)]. inversion H; subst.
      split; [|exact HT1]. cbn [fst ty_of agg_e]. rewrite Nat.add_succ_r. cbn [wf]. exact Hw.
    + (* array access *)
      cbn [ann_e] in Hn. splitn. bind_e H a1 st1 Ha. destruct (IHe _ _ _ _ H0 HS Ha) as [Hwa HS1].
      bind_e H i1 st2 Hi. destruct (IHe _ _ _ _ H1 HS1 Hi) as [_ (_ & _ & HT2)].
      apply cbind_ok in H. destruct H as [el [Hel H]]. apply cbind_ok in H. destruct H as [i2 [_ H]]. inversion H; subst; clear H.
      split; [|exact HT2]. cbn [fst snd ty_of agg_e] in *. destruct (ty_of a1); try discriminate Hel. inversion Hel; subst.
      apply wf_arr in Hwa. wle Hwa.
    + (* tuple literal *)
      cbn [ann_e] in Hn. apply cbind_ok in H. destruct H as [[es1 st1] [Hes H]]. inversion H; subst; clear H.
      destruct (exprs_wf f IHe _ _ _ _ Hn HS Hes) as [Hall (_ & _ & HT1)]. cbn [fst snd] in *. split; [|exact HT1].
      cbn [ty_of agg_e]. unfold sumE in Hall. rewrite Nat.add_succ_r. cbn [wf].
      apply forallb_forall. intros t Ht. apply in_map_iff in Ht. destruct Ht as [te [<- Hte]]. rewrite Forall_forall in Hall. exact (Hall _ Hte).
    + (* tuple access *)
      cbn [ann_e] in Hn. bind_e H x1 st1 Hx. destruct (IHe _ _ _ _ Hn HS Hx) as [Hw (_ & _ & HT1)].
      apply cbind_ok in H. destruct H as [vts [Hv H]]. destruct (nthN vts i) as [ty|] eqn:En; inversion H; subst; clear H.
      split; [|exact HT1]. cbn [fst snd ty_of agg_e] in *. destruct (ty_of x1); try discriminate Hv. inversion Hv; subst.
      exact (wf_tup D _ _ _ Hw (nthN_In _ _ _ En)).
    + (* struct access *)
      cbn [ann_e] in Hn. bind_e H x1 st1 Hx. destruct (IHe _ _ _ _ Hn HS Hx) as [Hw (_ & _ & HT1)].
      apply cbind_ok in H. destruct H as [nm [Hv H]]. destruct (assocL nm (d_structs D)) as [sd|] eqn:Ea; [|discriminate].
      destruct (assocL f0 sd) as [ft|] eqn:Ef; inversion H; subst; clear H.
      split; [|exact HT1]. cbn [fst snd ty_of agg_e] in *. destruct (ty_of x1); try discriminate Hv. inversion Hv; subst.
      exact (wf_struct D _ _ _ _ _ Hw Ea Ef).
    + (* struct literal *)
      cbn [ann_e] in Hn. splitn. destruct (assocL name (d_structs D)) as [sd|]; [|discriminate].
      apply cbind_ok in H. destruct H as [[r1 st1] [Hl H]]. cbn [fst snd] in H.
      destruct (missing_field sd fields); inversion H; subst; clear H.
      pose proof (struct_lit_wf f sd IHe _ _ _ _ _ H1 HS Hl) as (_ & _ & HT1). split; [|exact HT1].
      cbn [fst ty_of]. wle H0.
    + (* enum literal *)
      cbn [ann_e] in Hn. splitn.
      destruct (assocL e (d_enums D)) as [ed|]; [|discriminate]. destruct (assocL v ed) as [[pts|]|]; try discriminate H; destruct args as [es|]; try discriminate H.
      * destruct (negb _); [discriminate|]. apply cbind_ok in H. destruct H as [[es1 st1] [Hes H]]. cbn [fst snd] in H.
        apply cbind_ok in H. destruct H as [ex [_ H]]. inversion H; subst; clear H.
        destruct (exprs_wf f IHe _ _ _ _ H1 HS Hes) as [_ (_ & _ & HT1)]. split; [|exact HT1]. cbn [fst ty_of]. wle H0.
      * inversion H; subst. split; [|exact HtypB]. cbn [fst ty_of]. wle H0.
    + (* match *)
      cbn [ann_e] in Hn. splitn. bind_e H s1 st1 Hs. destruct (IHe _ _ _ _ H0 HS Hs) as [Hws HS1]. cbn [fst snd] in *.
      assert (Hmain : forall ty0 r0, wf D (B + agg_e e) ty0 = true ->
        (do rc <- mapM_st (fun (st0 : cstate) (pc : upattern * xexpr) =>
                    do rp <- check_pattern D (env_push (st_env st0)) (fst pc) ty0;
                    do re <- check_expr f D (with_env st0 (snd rp)) (snd pc);
                    COk ((fst rp, fst re), with_env (snd re) (env_pop (st_env (snd re))))) st1 arms;
         match fst rc with
         | [] => CErr E_Panic
         | (_, first) :: _ =>
             do clauses' <- mapM (fun pc : tpattern * texpr =>
                  if negb (cty_eqb (pick_elem_ty (ty_of first) (map (fun pc0 : tpattern * texpr => ty_of (snd pc0)) (fst rc))) (ty_of (snd pc)))
                  then match pick_elem_ty (ty_of first) (map (fun pc0 : tpattern * texpr => ty_of (snd pc0)) (fst rc)) with
                       | CUnsigned expected => do x <- coc_unsigned_deep f (snd pc) expected; COk (fst pc, x)
                       | CSigned expected => do x <- coc_signed_deep f (snd pc) expected; COk (fst pc, x)
                       | _ => CErr E_UnexpectedType
                       end
                  else COk pc) (fst rc);
             do _ <- check_exhaustiveness intern D (map fst clauses') ty0;
             COk (TE (TMatch s1 clauses') (pick_elem_ty (ty_of first) (map (fun pc0 : tpattern * texpr => ty_of (snd pc0)) (fst rc))), snd rc)
         end) = COk r0 ->
        wf D (B + agg_e (XMatch e arms)) (ty_of (fst r0)) = true /\ typed_ok (st_typed (snd r0))).
      { intros ty0 r0 Hty Hr. apply cbind_ok in Hr. destruct Hr as [[rc st2] [Hrc Hr]]. cbn [fst snd] in Hr.
        assert (HS1' : SInv (B + agg_e e) st1) by (eapply SInv_le; [|exact HS1]; lia).
        destruct (arms_wf f IHe arms (B + agg_e e) ty0 st1 _ Hty H1 HS1' Hrc) as [Hall (_ & _ & HT2)].
        cbn [fst snd] in *. destruct rc as [|[p0 first] rc']; [discriminate|].
        apply cbind_ok in Hr. destruct Hr as [cl [_ Hr]]. apply cbind_ok in Hr. destruct Hr as [u0 [_ Hr]]. inversion Hr; subst; clear Hr.
        split; [|exact HT2].
        assert (Hpt : wf D (B + agg_e e + list_sum (map (fun a : upattern * xexpr => agg_e (snd a)) arms))
                        (pick_elem_ty (ty_of first) (map (fun pc0 : tpattern * texpr => ty_of (snd pc0)) ((p0, first) :: rc'))) = true).
        { destruct (pick_elem_ty_in (ty_of first) (map (fun pc0 : tpattern * texpr => ty_of (snd pc0)) ((p0, first) :: rc'))) as [E|E].
          - rewrite E. inversion Hall; assumption.
          - apply in_map_iff in E. destruct E as [pc [Epc Hpc]]. rewrite <- Epc. rewrite Forall_forall in Hall. exact (Hall _ Hpc). }
        cbn [fst ty_of agg_e]. rewrite Nat.add_assoc. exact Hpt. }
      destruct (ty_of s1) eqn:Ety; try discriminate H; exact (Hmain _ _ Hws H).
    + (* unary *)
      cbn [ann_e] in Hn. destruct o; bind_e H x1 st1 Hx; destruct (IHe _ _ _ _ Hn HS Hx) as [Hw (_ & _ & HT1)];
        apply cbind_ok in H; destruct H as [? [_ H]]; inversion H; subst; (split; [exact Hw|exact HT1]).
    + (* binary *)
      cbn [ann_e] in Hn. splitn. bind_e H x1 st1 Hx. destruct (IHe _ _ _ _ H0 HS Hx) as [Hwx HS1].
      bind_e H y1 st2 Hy. destruct (IHe _ _ _ _ H1 HS1 Hy) as [_ (_ & _ & HT2)]. cbn [fst snd agg_e] in *.
      destruct o.
      1-12: (apply cbind_ok in H; destruct H as [[[x2 y2] ty] [Hu H]]; cbv beta iota in H;
             pose proof (unify_wf _ _ _ _ _ _ _ Hu Hwx) as Hwu).
      1-10: (apply cbind_ok in H; destruct H as [u0 [_ H]]).
      13-14: (apply cbind_ok in H; destruct H as [u0 [_ H]]; apply cbind_ok in H; destruct H as [y2 [_ H]]).
      15-16: (destruct (ty_of x1); try discriminate H; destruct (ty_of y1); try discriminate H).
      all: inversion H; subst; cbn [fst snd ty_of]; (split; [|exact HT2]);
           first [solve [apply wf_num; [lia|exact I]] | solve [wle Hwu] | solve [wle Hwx]].
    + (* block *)
      rewrite ann_e_block in Hn. apply cbind_ok in H. destruct H as [[[body ty] st1] [Hb H]]. cbv beta iota in H. inversion H; subst; clear H.
      assert (HSp : SInv B (with_env st (env_push (st_env st)))).
      { split; [exact HleB|]. split; [apply env_all_push; exact HenvB|exact HtypB]. }
      destruct (IHb _ _ _ _ Hn HSp Hb) as [(_ & _ & HT1) Hw]. cbn [fst snd] in *. rewrite agg_e_block. split; [exact Hw|exact HT1].
    + (* call *)
      cbn [ann_e] in Hn. apply cbind_ok in H. destruct H as [st1 [Hst1 H]]. cbv beta in H.
      assert (HS1 : SInv B st1).
      { destruct (negb _) in Hst1; [|inversion Hst1; subst; exact HS].
        destruct (find (fun d => list_eqb (uf_name d) f0) (d_fns D)) as [fd|] eqn:Ef; [|inversion Hst1; subst; exact HS].
        apply cbind_ok in Hst1. destruct Hst1 as [rf [Hf Hst1]]. inversion Hst1; subst; clear Hst1.
        destruct (IHf _ _ _ (proj1 (find_some _ _ Ef)) HtypB Hf) as (HT & Hwr & Hev).
        split; [exact HleB|]. cbn [st_env st_typed]. split; [rewrite Hev; exact HenvB|]. constructor; [exact Hwr|exact HT]. }
      destruct (assocL f0 (st_typed st1)) as [fd|] eqn:Ea; [|discriminate]. destruct (env_get (st_env st1) f0); [discriminate|].
      apply cbind_ok in H. destruct H as [[es1 st2] [Hes H]]. cbn [fst snd] in H.
      match type of H with (if ?c then _ else _) = _ => destruct c; [discriminate|] end.
      apply cbind_ok in H. destruct H as [ar [_ H]]. inversion H; subst; clear H.
      destruct (exprs_wf f IHe _ _ _ _ Hn HS1 Hes) as [_ (_ & _ & HT2)]. cbn [fst snd ty_of]. split; [|exact HT2].
      destruct HS1 as (_ & _ & HT1). apply assocL_In' in Ea. unfold typed_ok in HT1. rewrite Forall_forall in HT1.
      pose proof (HT1 _ Ea) as Hwf. cbn [snd] in Hwf. wle Hwf.
    + (* if *)
      cbn [ann_e] in Hn. splitn. bind_e H c1 st1 Hc. destruct (IHe _ _ _ _ H0 HS Hc) as [_ HS1].
      bind_e H a1 st2 Ha. destruct (IHe _ _ _ _ H2 HS1 Ha) as [Hwa HS2].
      bind_e H b1 st3 Hb. destruct (IHe _ _ _ _ H1 HS2 Hb) as [_ (_ & _ & HT3)].
      apply cbind_ok in H. destruct H as [c' [_ H]]. apply cbind_ok in H. destruct H as [[[a' b'] ty] [Hu H]]. cbv beta iota in H.
      inversion H; subst; clear H. cbn [fst snd ty_of agg_e] in *. split; [|exact HT3].
      pose proof (unify_wf _ _ _ _ _ _ _ Hu Hwa) as Hwu. wle Hwu.
    + (* cast *)
      cbn [ann_e] in Hn. splitn. apply cbind_ok in H. destruct H as [ty' [Hty H]].
      bind_e H x1 st1 Hx. destruct (IHe _ _ _ _ H1 HS Hx) as [_ (_ & _ & HT1)].
      apply cbind_ok in H. destruct H as [? [_ H]]. apply cbind_ok in H. destruct H as [? [_ H]]. inversion H; subst; clear H.
      cbn [fst snd ty_of]. split; [|exact HT1]. unfold ann_t in H0. rewrite Hty in H0. wle H0.
    + (* range *)
      destruct (_ || _); [discriminate|]. inversion H; subst. split; [|exact HtypB].
      cbn [fst ty_of agg_e]. replace (B + 1) with (S B) by lia. cbn [wf]. apply wf_num; [lia|exact I].
  - (* statement lists *)
    intros B st b r Hn HS H. cbn [Infer.check_stmts] in H. refold H. exact (stmts_wf f IHs _ _ _ _ Hn HS H).
  - (* blocks *)
    intros B st b r Hn HS H. cbn [Infer.check_block] in H. refold H.
    apply cbind_ok in H. destruct H as [[b1 st1] [Hm H]]. cbn [fst snd] in H. inversion H; subst; clear H.
    destruct (stmts_wf f IHs _ _ _ _ Hn HS Hm) as [HS1 Hall]. cbn [fst snd] in *. split; [exact HS1|].
    assert (H1 : 1 <= B + sumS b) by (destruct HS as (? & _ & _); lia).
    unfold last_expr_ty. destruct (last (map Some b1) None) as [[| | | |e0]|] eqn:El; try (apply wf_unit; exact H1).
    assert (Hin : In (TSExpr e0) b1).
    { clear - El. induction b1 as [|s1 b1 IH]; [discriminate|]. cbn [map] in El. destruct b1 as [|s2 b2].
      - cbn [map last] in El. inversion El. left. reflexivity.
      - right. apply IH. exact El. }
    rewrite Forall_forall in Hall. exact (Hall _ Hin e0 eq_refl).
  - (* statements *)
    intros B st s r Hn HS H. pose proof HS as (HleB & HenvB & HtypB).
    destruct s as [p o e|x o e|x accs e|p e body|e]; cbn [Infer.check_stmt] in H; refold H.
    + (* let *)
      cbn [ann_s] in Hn. splitn. bind_e H x1 st1 Hx. destruct (IHe _ _ _ _ H1 HS Hx) as [Hw (_ & Henv1 & HT1)]. cbn [fst snd] in *.
      apply cbind_ok in H. destruct H as [b' [Hb' H]].
      assert (Hwb : wf D (B + agg_e e) (ty_of b') = true).
      { destruct o as [u|]; [|inversion Hb'; subst; exact Hw].
        apply cbind_ok in Hb'. destruct Hb' as [ty' [Hty Hb']]. rewrite (check_type_ty _ _ _ _ Hb').
        cbn [ann_o] in H0. unfold ann_t in H0. rewrite Hty in H0. wle H0. }
      apply cbind_ok in H. destruct H as [rp [Hp H]]. apply cbind_ok in H. destruct H as [u0 [_ H]]. inversion H; subst; clear H.
      cbn [fst snd agg_s]. split; [|intros e0 He0; discriminate He0].
      split; [lia|]. split; [|exact HT1]. cbn [with_env st_env].
      assert (Henv1' : env_all (B + agg_e e) (st_env st1)) by (eapply env_all_le; [|exact Henv1]; lia).
      exact (check_pattern_wf p _ _ _ _ Hwb Henv1' Hp).
    + (* let mut *)
      cbn [ann_s] in Hn. splitn. bind_e H x1 st1 Hx. destruct (IHe _ _ _ _ H1 HS Hx) as [Hw (_ & Henv1 & HT1)]. cbn [fst snd] in *.
      apply cbind_ok in H. destruct H as [b' [Hb' H]].
      assert (Hwb : wf D (B + agg_e e) (ty_of b') = true).
      { destruct o as [u|]; [|inversion Hb'; subst; exact Hw].
        apply cbind_ok in Hb'. destruct Hb' as [ty' [Hty Hb']]. rewrite (check_type_ty _ _ _ _ Hb').
        cbn [ann_o] in H0. unfold ann_t in H0. rewrite Hty in H0. wle H0. }
      apply cbind_ok in H. destruct H as [b'' [Hc H]]. inversion H; subst; clear H.
      cbn [fst snd agg_s]. split; [|intros e0 He0; discriminate He0].
      split; [lia|]. split; [|exact HT1]. cbn [with_env st_env].
      apply env_all_let; [eapply env_all_le; [|exact Henv1]; lia|]. exact (constrain_to_i32_wf _ _ _ _ Hc Hwb).
    + (* assignment *)
      cbn [ann_s] in Hn. splitn. destruct (env_get (st_env st) x) as [[t [|]]|]; try discriminate H.
      apply cbind_ok in H. destruct H as [[[tas t'] st1] [Hl H]]. cbv beta iota in H.
      pose proof (accs_wf f IHe _ _ _ _ _ H0 HS Hl) as HS1. cbn [snd] in HS1.
      bind_e H v1 st2 Hv. destruct (IHe _ _ _ _ H1 HS1 Hv) as [_ HS2].
      apply cbind_ok in H. destruct H as [v' [_ H]]. inversion H; subst; clear H.
      cbn [fst snd] in *. split; [eapply SInv_le; [|exact HS2]; lia|intros e0 He0; discriminate He0].
    + (* for *)
      rewrite ann_s_for in Hn. splitn.
      match type of H with (if ?c then _ else _) = _ => destruct c; [discriminate|] end.
      bind_e H x1 st1 Hx. destruct (IHe _ _ _ _ H0 HS Hx) as [Hw (_ & Henv1 & HT1)]. cbn [fst snd] in *.
      apply cbind_ok in H. destruct H as [el [Hel H]]. apply cbind_ok in H. destruct H as [rp [Hp H]].
      apply cbind_ok in H. destruct H as [u0 [_ H]]. apply cbind_ok in H. destruct H as [rb [Hb H]]. inversion H; subst; clear H.
      assert (Hwel : wf D (B + agg_e e) el = true).
      { destruct (ty_of x1); try discriminate Hel. inversion Hel; subst. exact (wf_arr D _ _ _ Hw). }
      assert (HSb : SInv (B + agg_e e) (with_env st1 (snd rp))).
      { split; [lia|]. split; [|exact HT1]. cbn [with_env st_env].
        assert (Henv1' : env_all (B + agg_e e) (st_env st1)) by (eapply env_all_le; [|exact Henv1]; lia).
        exact (check_pattern_wf p _ _ _ _ Hwel (env_all_push _ _ Henv1') Hp). }
      destruct (IHss _ _ _ _ H1 HSb Hb) as [(_ & Henv2 & HT2) _].
      rewrite agg_s_for, Nat.add_assoc. cbn [fst snd]. split; [|intros e0 He0; discriminate He0].
      split; [lia|]. split; [|exact HT2]. cbn [with_env st_env]. change env_pop with (@tl cscope). apply env_all_tl. exact Henv2.
    + (* expression statement *)
      cbn [ann_s] in Hn. bind_e H x1 st1 Hx. destruct (IHe _ _ _ _ Hn HS Hx) as [Hw HS1]. inversion H; subst; clear H.
      cbn [fst snd agg_s] in *. split; [eapply SInv_le; [|exact HS1]; lia|]. intros e0 He0. inversion He0; subst. exact Hw.
  - (* functions *)
    intros st fd r Hin HT H. pose proof (proj2 (proj2 (proj2 (proj2 (check_env intern (S f) D)))) st fd r H) as Hev.
    cbn [Infer.check_fn] in H. refold H.
    destruct (memL (uf_name fd) (st_checking st)); [discriminate|].
    pose proof (Hfns fd Hin) as Hann. unfold ann_fn in Hann. splitn.
    apply cbind_ok in H. destruct H as [rp [Hp H]].
    apply cbind_ok in H. destruct H as [[[body ty] st1] [Hb H]]. cbv beta iota zeta in H.
    apply cbind_ok in H. destruct H as [ret_ty [Hret H]]. apply cbind_ok in H. destruct H as [body' [_ H]]. inversion H; subst; clear H.
    assert (Hg : env_all B0 (snd rp)).
    { eapply params_wf; [exact H0| |exact Hp]. apply env_all_push. constructor; [constructor|constructor]. }
    assert (HSb : SInv B0 (mkSt (snd rp) (st_typed st) (uf_name fd :: st_checking st))).
    { split; [lia|]. split; [exact Hg|exact HT]. }
    destruct (IHb _ _ _ _ H1 HSb Hb) as [(_ & _ & HT1) _]. cbn [fst snd st_typed tf_ty] in *.
    split; [exact HT1|]. split; [|exact Hev]. unfold ann_t in H2. rewrite Hret in H2. exact H2.
Qed.
End Depth.

Print Assumptions check_pattern_wf.
Print Assumptions depth_all.

(* ================================================================ the computable bound

   [defs_of P]: the definitions check_program_t builds before it checks the functions (fuel-free).
   [ty_depth_bound P]: the least level b at which all declared types that occur in P (const types,
   parameter / return / annotation / cast types, the named types of struct / enum literals) are wf,
   plus the largest number of aggregate-literal nodes of a function body. *)
Definition defs_of (P : uprogram) : option defs :=
  let sn := map us_name (up_structs P) in
  let en := map ue_name (up_enums P) in
  match check_consts (up_consts P) [], mapM (check_struct_def sn en) (up_structs P), mapM (check_enum_def sn en) (up_enums P) with
  | COk consts, COk structs, COk enums =>
      Some (mkDefs (map (fun c => (fst c, ty_of (snd c))) consts) structs enums (up_fns P) sn en)
  | _, _, _ => None
  end.

Definition depth_ok (D : defs) (b : nat) (P : uprogram) : bool :=
  forallb (fun c : list N * cty => wf D b (snd c)) (d_consts D) && forallb (ann_fn D b) (up_fns P).

Definition max_agg (P : uprogram) : nat := list_max (map (fun fd => sumS (uf_body fd)) (up_fns P)).

Definition ty_depth_bound (P : uprogram) : nat :=
  match defs_of P with
  | None => 0
  | Some D => match find (fun b => depth_ok D b P) (seq 1 64) with
              | Some b => b + max_agg P
              | None => 65
              end
  end.

Lemma defs_of_fns P D : defs_of P = Some D -> d_fns D = up_fns P.
Proof.
  unfold defs_of. destruct (check_consts _ _); try discriminate. destruct (mapM _ (up_structs P)); try discriminate.
  destruct (mapM _ (up_enums P)); try discriminate. intro H. inversion H. reflexivity.
Qed.

(* what [ty_depth_bound P <= 64] gives: the hypotheses of Section Depth for the definitions of P, and the budget *)
Lemma ty_depth_bound_spec P D : defs_of P = Some D -> ty_depth_bound P <= 64 ->
  exists b, 1 <= b /\
    (forall x t, assocL x (d_consts D) = Some t -> wf D b t = true) /\
    (forall fd, In fd (d_fns D) -> ann_fn D b fd = true) /\
    (forall fd, In fd (d_fns D) -> b + sumS (uf_body fd) <= 64).
Proof.
  intros Hd Hb. unfold ty_depth_bound in Hb. rewrite Hd in Hb. rewrite (defs_of_fns _ _ Hd).
  destruct (find (fun b => depth_ok D b P) (seq 1 64)) as [b|] eqn:Ef; [|lia].
  destruct (find_some _ _ Ef) as [Hin Hok]. apply in_seq in Hin. unfold depth_ok in Hok. apply andb_true_iff in Hok. destruct Hok as [Hc Hf].
  exists b. split; [lia|]. split; [|split].
  - intros x t Ha. exact (proj1 (forallb_forall _ _) Hc (x, t) (assocL_In' _ _ _ Ha)).
  - intros fd Hfd. exact (proj1 (forallb_forall _ _) Hf fd Hfd).
  - intros fd Hfd. pose proof (in_list_max (fun fd => sumS (uf_body fd)) (up_fns P) fd Hfd) as Hm. unfold max_agg in Hb. cbv beta in Hm. lia.
Qed.

(* phase 1 for the definitions of P *)
Corollary depth_program intern P D : defs_of P = Some D -> ty_depth_bound P <= 64 ->
  exists b, 1 <= b /\ (forall fd, In fd (d_fns D) -> b + sumS (uf_body fd) <= 64) /\
    forall f, GE D b intern f /\ GSS D b intern f /\ GB D b intern f /\ GS D b intern f /\ GF D b intern f.
Proof.
  intros Hd Hb. destruct (ty_depth_bound_spec P D Hd Hb) as (b & H1 & Hc & Hf & Hbud).
  exists b. split; [exact H1|]. split; [exact Hbud|]. intro f. exact (depth_all D b intern H1 Hc Hf f).
Qed.

Print Assumptions depth_program.

From GV Require Check.InferExamples.
Module Fuel5Examples.
Import InferExamples.
Example bounds : map ty_depth_bound [P_loop; P_ops; P_call; P_s3; P_const] = [2; 1; 1; 2; 1].
Proof. vm_compute. reflexivity. Qed.
End Fuel5Examples.
