(* C06 for the type checker: the result of the model of check.rs (Check/Infer.v) does not depend on
   the ORDER of the lists that stand for the HashMaps of a Program (fn_defs, struct_defs,
   enum_defs). *)
From Coq Require Import Lia Bool Permutation.
From GV Require Import Base.Util Front.Scan Front.ParseExpr Check.UAst Check.Infer Check.InferProofs Check.InferTotal.
From GV Require Exhaust.Pat Exhaust.Useful.
Local Open Scope N_scope.

(* ================================================================ part 1: two definition
   environments that answer every look-up alike *)

Section DefsEq.
Variable intern : list N -> N.
Variables D D' : defs.
Hypothesis Hc : d_consts D' = d_consts D.
Hypothesis Hs : forall n, assocL n (d_structs D') = assocL n (d_structs D).
Hypothesis He : forall n, assocL n (d_enums D') = assocL n (d_enums D).
Hypothesis Hf : forall id, find (fun d => list_eqb (uf_name d) id) (d_fns D') =
                           find (fun d => list_eqb (uf_name d) id) (d_fns D).
Hypothesis Hsn : forall n, memL n (d_struct_names D') = memL n (d_struct_names D).
Hypothesis Hen : forall n, memL n (d_enum_names D') = memL n (d_enum_names D).
Hypothesis Hexh : forall ps ty, check_exhaustiveness intern D' ps ty = check_exhaustiveness intern D ps ty.

Lemma as_concrete_type_eq sn en sn' en' : (forall n, memL n sn' = memL n sn) -> (forall n, memL n en' = memL n en) ->
  forall t, as_concrete_type sn' en' t = as_concrete_type sn en t.
Proof.
  intros H1 H2. induction t using utype_ind'; cbn [as_concrete_type]; try reflexivity.
  - rewrite H1, H2. reflexivity.
  - f_equal. induction H as [|x xs Hx _ IHxs]; [reflexivity|]. rewrite Hx, IHxs. reflexivity.
  - rewrite IHt. reflexivity.
Qed.

Lemma concrete_of_eq t : concrete_of D' t = concrete_of D t.
Proof. apply as_concrete_type_eq; assumption. Qed.

Lemma fields_loop_eq fs : Forall (fun p => forall g ty, check_pattern D' g p ty = check_pattern D g p ty) fs ->
  forall ts g,
    (fix go (fs : list upattern) (ts : list cty) (g : cenv) : cres (list tpattern * cenv) :=
       match fs, ts with
       | fp :: fr, t :: tr =>
           do r1 <- check_pattern D' g fp t; do r2 <- go fr tr (snd r1); COk (fst r1 :: fst r2, snd r2)
       | _, _ => COk ([], g)
       end) fs ts g =
    (fix go (fs : list upattern) (ts : list cty) (g : cenv) : cres (list tpattern * cenv) :=
       match fs, ts with
       | fp :: fr, t :: tr =>
           do r1 <- check_pattern D g fp t; do r2 <- go fr tr (snd r1); COk (fst r1 :: fst r2, snd r2)
       | _, _ => COk ([], g)
       end) fs ts g.
Proof.
  induction 1 as [|q fs Hq Hfs IHfs]; intros ts g; [reflexivity|].
  destruct ts as [|t ts]; [reflexivity|]. rewrite Hq. destruct (check_pattern D g q t) as [r1| | |]; cbn [cbind]; try reflexivity.
  rewrite IHfs. reflexivity.
Qed.

Lemma struct_loop_eq sd fs : Forall (fun f => forall g ty, check_pattern D' g (snd f) ty = check_pattern D g (snd f) ty) fs ->
  forall seen g,
    (fix go (seen : list (list N)) (fs : list (list N * upattern)) (g : cenv)
       : cres (list (list N * tpattern) * cenv) :=
       match fs with
       | [] => COk ([], g)
       | (field_name, field_value) :: fr =>
           if memL field_name seen then CErr E_PatternDoesNotMatchType else
           match assocL field_name sd with
           | Some field_type =>
               do r1 <- check_pattern D' g field_value field_type;
               do r2 <- go (field_name :: seen) fr (snd r1);
               COk ((field_name, fst r1) :: fst r2, snd r2)
           | None => CErr E_UnknownStructField
           end
       end) seen fs g =
    (fix go (seen : list (list N)) (fs : list (list N * upattern)) (g : cenv)
       : cres (list (list N * tpattern) * cenv) :=
       match fs with
       | [] => COk ([], g)
       | (field_name, field_value) :: fr =>
           if memL field_name seen then CErr E_PatternDoesNotMatchType else
           match assocL field_name sd with
           | Some field_type =>
               do r1 <- check_pattern D g field_value field_type;
               do r2 <- go (field_name :: seen) fr (snd r1);
               COk ((field_name, fst r1) :: fst r2, snd r2)
           | None => CErr E_UnknownStructField
           end
       end) seen fs g.
Proof.
  induction 1 as [|[fname fp] fs Hq Hfs IHfs]; intros seen g; [reflexivity|]. cbn [snd] in Hq.
  destruct (memL fname seen); [reflexivity|]. destruct (assocL fname sd); [|reflexivity].
  rewrite Hq. destruct (check_pattern D g fp c) as [r1| | |]; cbn [cbind]; try reflexivity. rewrite IHfs. reflexivity.
Qed.

Lemma check_pattern_eq : forall p g ty, check_pattern D' g p ty = check_pattern D g p ty.
Proof.
  induction p using upattern_ind'; intros g ty; cbn [check_pattern]; cbv zeta; try reflexivity.
  - destruct (expect_tuple_type ty) as [fts| | |]; cbn [cbind]; try reflexivity.
    destruct (negb _); [reflexivity|]. rewrite (fields_loop_eq ps H). reflexivity.
  - rewrite Hs. destruct (expect_struct_type ty); cbn [cbind]; try reflexivity.
    destruct (negb _); [reflexivity|]. destruct (assocL n (d_structs D)); [|reflexivity].
    rewrite (struct_loop_eq _ fs H). reflexivity.
  - rewrite Hs. destruct (expect_struct_type ty); cbn [cbind]; try reflexivity.
    destruct (negb _); [reflexivity|]. destruct (assocL n (d_structs D)); [|reflexivity].
    rewrite (struct_loop_eq _ fs H). reflexivity.
  - rewrite He. reflexivity.
  - rewrite He. destruct ty; try reflexivity. destruct (negb _); [reflexivity|].
    destruct (assocL e (d_enums D)); [|reflexivity]. destruct (assocL v l) as [[fts|]|]; try reflexivity.
    rewrite (fields_loop_eq ps H). reflexivity.
Qed.
(* ---------------------------------------------------------------- two runs side by side *)

(* no call anywhere *)
Fixpoint ncb_x (e : xexpr) : bool :=
  match e with
  | XTrue | XFalse | XNumUnsigned _ _ | XNumSigned _ _ | XIdentifier _ | XRange _ _ _ => true
  | XArrayLiteral es => forallb ncb_x es
  | XArrayRepeatLiteral e _ => ncb_x e
  | XArrayRepeatLiteralConst e _ => ncb_x e
  | XArrayAccess a i => ncb_x a && ncb_x i
  | XTupleLiteral es => forallb ncb_x es
  | XTupleAccess e _ => ncb_x e
  | XStructAccess e _ => ncb_x e
  | XStructLiteral _ fs => forallb (fun f => ncb_x (snd f)) fs
  | XEnumLiteral _ _ None => true
  | XEnumLiteral _ _ (Some es) => forallb ncb_x es
  | XMatch e arms => ncb_x e && forallb (fun a => ncb_x (snd a)) arms
  | XUnaryOp _ e => ncb_x e
  | XOp _ l r => ncb_x l && ncb_x r
  | XBlock b => forallb ncb_s b
  | XFnCall _ _ => false
  | XJoin args => forallb ncb_x args
  | XIf c t e => ncb_x c && ncb_x t && ncb_x e
  | XCast _ e => ncb_x e
  end
with ncb_s (s : xstmt) : bool :=
  match s with
  | XSLet _ _ e => ncb_x e
  | XSLetMut _ _ e => ncb_x e
  | XSVarAssign _ accs e => forallb ncb_a accs && ncb_x e
  | XSForEach _ e body => ncb_x e && forallb ncb_s body
  | XSExpr e => ncb_x e
  end
with ncb_a (a : xaccessor) : bool :=
  match a with
  | XAArray i => ncb_x i
  | XATuple _ | XAStruct _ => true
  end.

(* [nc = true]: the trees have no call, the typed maps of the two runs are related by an
   ARBITRARY relation [Rt] (they are never read);  [nc = false]: calls allowed, [Rt] must imply
   equal look-ups and be preserved by inserting the same entry *)
Variable nc : bool.
Variable Rt : list (list N * tfndef) -> list (list N * tfndef) -> Prop.
Hypothesis Rt_get : nc = false -> forall t t', Rt t t' -> forall n, assocL n t = assocL n t'.
Hypothesis Rt_ins : nc = false -> forall t t' e, Rt t t' -> Rt (e :: t) (e :: t').

Definition st_rel (s s' : cstate) : Prop :=
  st_env s = st_env s' /\ st_checking s = st_checking s' /\ Rt (st_typed s) (st_typed s').

Definition rres {A} (RA : A -> A -> Prop) (r r' : cres A) : Prop :=
  match r, r' with
  | COk a, COk a' => RA a a'
  | CErr c, CErr c' => c = c'
  | COutside, COutside => True
  | CNoFuel, CNoFuel => True
  | _, _ => False
  end.

Definition RP {B} (r r' : B * cstate) : Prop := fst r = fst r' /\ st_rel (snd r) (snd r').

Lemma rres_bind {A B} (RA : A -> A -> Prop) (RB : B -> B -> Prop) r r' (k k' : A -> cres B) :
  rres RA r r' -> (forall a a', RA a a' -> rres RB (k a) (k' a')) -> rres RB (cbind r k) (cbind r' k').
Proof. destruct r, r'; cbn [rres cbind]; auto; try contradiction. Qed.

Lemma rres_eq {A} (r : cres A) : rres eq r r.
Proof. destruct r; cbn [rres]; auto. Qed.

Lemma rres_pure {A B} (RB : B -> B -> Prop) (r : cres A) (k k' : A -> cres B) :
  (forall a, rres RB (k a) (k' a)) -> rres RB (cbind r k) (cbind r k').
Proof. intro H. eapply rres_bind; [apply rres_eq|]. intros a a' <-. apply H. Qed.

Lemma rres_mapM_st {A B} (g g' : cstate -> A -> cres (B * cstate)) l :
  (forall st st' x, In x l -> st_rel st st' -> rres RP (g st x) (g' st' x)) ->
  forall st st', st_rel st st' -> rres RP (mapM_st g st l) (mapM_st g' st' l).
Proof.
  induction l as [|x l IH]; intros H st st' Hq; cbn [mapM_st]; [split; [reflexivity|exact Hq]|].
  eapply rres_bind; [apply H; [now left|exact Hq]|]. intros [b1 s1] [b1' s1'] [E1 S1]. cbn [fst snd] in *. subst b1'.
  eapply rres_bind; [apply IH; [intros; apply H; [now right|assumption]|exact S1]|].
  intros [b2 s2] [b2' s2'] [E2 S2]. cbn [fst snd] in *. subst b2'. split; [reflexivity|exact S2].
Qed.
Notation check_expr := (check_expr intern).
Notation check_stmt := (check_stmt intern).
Notation check_stmts := (check_stmts intern).
Notation check_block := (check_block intern).
Notation check_fn := (check_fn intern).

Lemma seq_mk g t t' c : Rt t t' -> st_rel (mkSt g t c) (mkSt g t' c).
Proof. intro H. repeat split. exact H. Qed.

Ltac rr_intro :=
  let a := fresh "a" in let a' := fresh "a'" in let HR := fresh "HR" in
  intros a a' HR;
  first
   [ destruct a as [?b [?g ?t ?c]], a' as [?b [?g ?t ?c]]; destruct HR as [?E (?E & ?E & ?E)];
     cbn [fst snd st_env st_checking st_typed] in *; subst
   | subst a' ].

Ltac seq_solve := cbn [with_env st_env st_checking st_typed fst snd]; first [apply seq_mk; assumption | assumption].

Ltac ncsolve Hnc :=
  let Hn := fresh "Hn" in
  intro Hn; try congruence; specialize (Hnc Hn); cbn [ncb_x ncb_s ncb_a] in Hnc; repeat rewrite andb_true_iff in Hnc;
  first [ tauto | discriminate Hnc
        | match goal with Hin : In ?x ?l |- _ =>
            first [ exact (forallb_In _ _ _ Hnc Hin)
                  | exact (forallb_In _ _ _ (proj1 Hnc) Hin) | exact (forallb_In _ _ _ (proj2 Hnc) Hin) ] end ].

Ltac rr_core IHt :=
  repeat (rewrite ?concrete_of_eq, ?check_pattern_eq, ?Hexh, ?Hs, ?He, ?Hf, ?Hc;
    cbn [st_env st_typed st_checking with_env];
    match goal with
    | |- rres _ (COk _) (COk _) => cbn [rres]
    | |- rres _ (CErr _) (CErr _) => reflexivity
    | |- rres _ COutside COutside => exact I
    | |- rres _ CNoFuel CNoFuel => exact I
    | |- rres _ (cbind ?r _) (cbind ?r _) => apply rres_pure; intros ?
    | |- rres _ (cbind _ _) (cbind _ _) => eapply rres_bind; [solve [IHt] | rr_intro]
    | |- rres _ (if ?c then _ else _) (if ?c then _ else _) => destruct c eqn:?
    | |- rres _ (match ?x with _ => _ end) (match ?x with _ => _ end) => destruct x eqn:?
    end).

Ltac rp_fin := first [ split; [reflexivity|seq_solve] | exact I | reflexivity ].

Lemma rres_accs_loop ce ce' fuel : forall accs,
  (forall st st' a, In a accs -> st_rel st st' -> match a with XAArray i => rres RP (ce st i) (ce' st' i) | _ => True end) ->
  forall st st' t, st_rel st st' -> rres RP (accs_loop ce fuel D st t accs) (accs_loop ce' fuel D' st' t accs).
Proof.
  induction accs as [|a accs IH]; intros H st st' t Hq; cbn [accs_loop]; [split; [reflexivity|exact Hq]|].
  assert (IH' : forall st st' t, st_rel st st' -> rres RP (accs_loop ce fuel D st t accs) (accs_loop ce' fuel D' st' t accs))
    by (intros; apply IH; [intros; apply H; [now right|assumption]|assumption]).
  pose proof (fun st st' => H st st' a (or_introl eq_refl)) as Ha. clear H IH.
  eapply rres_bind with (RA := fun r r' => fst r = fst r' /\ st_rel (snd r) (snd r')).
  - destruct a.
    + destruct (expect_array_type t); cbn [cbind rres]; auto.
      eapply rres_bind; [apply Ha; exact Hq|]. intros [i1 s1] [i1' s1'] [E1 S1]. cbn [fst snd] in *. subst i1'.
      destruct (coc_unsigned_deep fuel i1 Usize); cbn [cbind rres]; auto.
    + destruct (expect_tuple_type t); cbn [cbind rres]; auto. destruct (nthN _ _); cbn [rres]; auto.
    + destruct (expect_struct_type t); cbn [cbind rres]; auto. rewrite Hs.
      destruct (assocL _ (d_structs D)); cbn [rres]; auto. destruct (assocL _ _); cbn [rres]; auto.
  - intros [[ta t1] s1] [[ta' t1'] s1'] [E1 S1]. cbn [fst snd] in *. injection E1 as <- <-.
    eapply rres_bind; [apply IH'; exact S1|]. intros [[tas tf] s2] [[tas' tf'] s2'] [E2 S2]. cbn [fst snd] in *.
    injection E2 as <- <-. split; [reflexivity|exact S2].
Qed.

Lemma rres_struct_lit_loop ce ce' f sd : forall fields,
  (forall st st' fl, In fl fields -> st_rel st st' -> rres RP (ce st (snd fl)) (ce' st' (snd fl))) ->
  forall seen st st', st_rel st st' ->
  rres RP (struct_lit_loop ce f sd seen st fields) (struct_lit_loop ce' f sd seen st' fields).
Proof.
  induction fields as [|[fname fv] fields IH]; intros H seen st st' Hq; cbn [struct_lit_loop]; [split; [reflexivity|exact Hq]|].
  destruct (memL fname seen); [reflexivity|]. destruct (assocL fname sd); [|reflexivity].
  eapply rres_bind; [apply (H st st' (fname, fv)); [now left|exact Hq]|]. intros [e1 s1] [e1' s1'] [E1 S1]. cbn [fst snd] in *. subst e1'.
  destruct (check_type f e1 c); cbn [cbind rres]; auto.
  eapply rres_bind; [apply IH; [intros; apply H; [now right|assumption]|exact S1]|].
  intros [r2 s2] [r2' s2'] [E2 S2]. cbn [fst snd] in *. subst r2'. split; [reflexivity|exact S2].
Qed.
Definition GE f := forall st st' e, st_rel st st' -> (nc = true -> ncb_x e = true) ->
  rres RP (check_expr f D st e) (check_expr f D' st' e).
Definition GSS f := forall st st' b, st_rel st st' -> (nc = true -> forallb ncb_s b = true) ->
  rres RP (check_stmts f D st b) (check_stmts f D' st' b).
Definition GB f := forall st st' b, st_rel st st' -> (nc = true -> forallb ncb_s b = true) ->
  rres RP (check_block f D st b) (check_block f D' st' b).
Definition GS f := forall st st' s, st_rel st st' -> (nc = true -> ncb_s s = true) ->
  rres RP (check_stmt f D st s) (check_stmt f D' st' s).
Definition GF f := forall st st' fd, st_rel st st' -> (nc = true -> forallb ncb_s (uf_body fd) = true) ->
  rres RP (check_fn f D st fd) (check_fn f D' st' fd).

Ltac ih_tac IHe IHss IHb IHs IHf Hnc :=
  first [ apply IHe; [seq_solve|ncsolve Hnc]
        | apply IHss; [seq_solve|ncsolve Hnc]
        | apply IHb; [seq_solve|ncsolve Hnc]
        | apply IHs; [seq_solve|ncsolve Hnc]
        | apply rres_mapM_st; [intros ? ? ? ? ?; first [apply IHe|apply IHs]; [assumption|ncsolve Hnc]|seq_solve] ].

Lemma rel_expr f : GE f -> GB f -> GF f -> GE (S f).
Proof.
  intros IHe IHb IHf st st' e Hq Hnc.
  destruct st as [g t c], st' as [g' t' c']. destruct Hq as (Eg & Ec & Ht). cbn [st_env st_checking st_typed] in *. subst g' c'.
  destruct e; cbn [Infer.check_expr]; cbn [st_env st_checking st_typed with_env].
  all: try solve [rr_core ltac:(ih_tac IHe IHe IHb IHe IHf Hnc); rp_fin].
  - (* struct literal *)
    rewrite Hs. destruct (assocL name (d_structs D)); [|reflexivity].
    eapply rres_bind; [apply rres_struct_lit_loop; [intros st0 st0' fl Hin Hq0; apply IHe; [exact Hq0|ncsolve Hnc]|seq_solve]|rr_intro].
    rr_core ltac:(ih_tac IHe IHe IHb IHe IHf Hnc); rp_fin.
  - (* match *)
    eapply rres_bind; [apply IHe; [seq_solve|ncsolve Hnc]|rr_intro].
    match goal with |- rres _ (match ty_of ?x with _ => _ end) _ => destruct (ty_of x) end; try reflexivity;
    (eapply rres_bind;
      [apply rres_mapM_st; [|seq_solve];
       intros st0 st0' pc Hin Hq0; destruct st0 as [gq tq cq], st0' as [gq' tq' cq']; destruct Hq0 as (Eg0 & Ec0 & Ht0);
       cbn [st_env st_checking st_typed] in Eg0, Ec0, Ht0; subst gq' cq';
       rr_core ltac:(ih_tac IHe IHe IHb IHe IHf Hnc); rp_fin
      |rr_intro]; rr_core ltac:(ih_tac IHe IHe IHb IHe IHf Hnc); rp_fin).
  - (* call *)
    assert (Enc : nc = false) by (clear - Hnc; destruct nc; [specialize (Hnc eq_refl); discriminate Hnc|reflexivity]).
    pose proof (Rt_get Enc) as Hget. pose proof (Rt_ins Enc) as Hins.
    rewrite <- (Hget t t' Ht f0). rewrite Hf.
    eapply rres_bind with (RA := st_rel).
    + destruct (negb _); [|apply seq_mk; exact Ht].
      destruct (find _ (d_fns D)) as [fd|]; [|apply seq_mk; exact Ht].
      eapply rres_bind; [apply IHf; [apply seq_mk; exact Ht|intro Hn; congruence]|rr_intro].
      cbn [rres]. apply seq_mk. apply Hins. assumption.
    + intros [g1 t1 c1] [g1' t1' c1'] (Eg1 & Ec1 & Ht1). cbn [st_env st_checking st_typed] in *. subst g1' c1'.
      rewrite <- (Hget t1 t1' Ht1 f0).
      destruct (assocL f0 t1); [|reflexivity]. destruct (env_get g1 f0); [reflexivity|].
      rr_core ltac:(ih_tac IHe IHe IHb IHe IHf Hnc); rp_fin.
Qed.
Lemma rel_stmts f : GS f -> GSS (S f) /\ GB (S f).
Proof.
  intro IHs. split; intros st st' b Hq Hnc; cbn [Infer.check_stmts Infer.check_block].
  - apply rres_mapM_st; [|exact Hq]. intros st0 st0' x Hin Hq0. apply IHs; [exact Hq0|ncsolve Hnc].
  - eapply rres_bind; [apply rres_mapM_st; [|exact Hq]; intros st0 st0' x Hin Hq0; apply IHs; [exact Hq0|ncsolve Hnc]|].
    intros [b1 s1] [b1' s1'] [E1 S1]. cbn [fst snd] in *. subst b1'. split; [reflexivity|exact S1].
Qed.

Lemma rel_stmt f : GE f -> GSS f -> GS (S f).
Proof.
  intros IHe IHss st st' s Hq Hnc.
  destruct st as [g t c], st' as [g' t' c']. destruct Hq as (Eg & Ec & Ht). cbn [st_env st_checking st_typed] in *. subst g' c'.
  destruct s; cbn [Infer.check_stmt]; cbn [st_env st_checking st_typed with_env].
  all: try solve [rr_core ltac:(ih_tac IHe IHss IHss IHe IHe Hnc); rp_fin].
  (* assignment *)
  all: try solve [destruct ty; rr_core ltac:(ih_tac IHe IHss IHss IHe IHe Hnc); rp_fin].
  destruct (env_get g x) as [[ety [|]]|]; try reflexivity.
  eapply rres_bind.
  - apply rres_accs_loop; [|apply seq_mk; exact Ht].
    intros st0 st0' a Hin Hq0. destruct a; try exact I. apply IHe; [exact Hq0|].
    intro Hn. specialize (Hnc Hn). cbn [ncb_s] in Hnc. apply andb_true_iff in Hnc. exact (forallb_In _ _ _ (proj1 Hnc) Hin).
  - intros [[tas ty1] [g1 t1 c1]] [[tas' ty1'] [g1' t1' c1']] [E1 (Eg1 & Ec1 & Ht1)].
    cbn [fst snd st_env st_checking st_typed] in *. injection E1 as <- <-. subst g1' c1'.
    rr_core ltac:(ih_tac IHe IHss IHss IHe IHe Hnc); rp_fin.
Qed.

Lemma rel_fn f : GB f -> GF (S f).
Proof.
  intros IHb st st' fd Hq Hnc.
  destruct st as [g t c], st' as [g' t' c']. destruct Hq as (Eg & Ec & Ht). cbn [st_env st_checking st_typed] in *. subst g' c'.
  cbn [Infer.check_fn]. cbn [st_env st_checking st_typed].
  destruct (memL (uf_name fd) c); [reflexivity|]. cbv zeta.
  match goal with |- rres _ (cbind ?r _) (cbind ?r' _) => assert (Er : r' = r) end.
  { generalize (@nil (list N)) (env_push env_new). induction (uf_params fd) as [|p ps IHp]; intros seen g0; [reflexivity|].
    destruct (memL _ seen); [reflexivity|]. rewrite concrete_of_eq. destruct (concrete_of D (upa_ty p)); cbn [cbind]; try reflexivity.
    rewrite IHp. reflexivity. }
  rewrite Er. apply rres_pure. intros rp.
  eapply rres_bind; [apply IHb; [apply seq_mk; exact Ht|exact Hnc]|].
  intros [[body bty] [g1 t1 c1]] [[body' bty'] [g1' t1' c1']] [E1 (Eg1 & Ec1 & Ht1)].
  cbn [fst snd st_env st_checking st_typed] in *. injection E1 as <- <-. subst g1' c1'.
  rewrite concrete_of_eq. apply rres_pure. intros ret_ty. apply rres_pure. intros body'.
  cbn [rres]. split; [reflexivity|apply seq_mk; exact Ht1].
Qed.

(* THE TWO RUNS AGREE: same typed trees, same errors, related states *)
Theorem check_rel f : GE f /\ GSS f /\ GB f /\ GS f /\ GF f.
Proof.
  induction f as [|f (IHe & IHss & IHb & IHs & IHf)].
  { repeat split; intros ? ? ? ? ?; exact I. }
  pose proof (rel_stmts f IHs) as [H1 H2].
  split; [apply rel_expr; assumption|]. split; [exact H1|]. split; [exact H2|].
  split; [apply rel_stmt; assumption|apply rel_fn; assumption].
Qed.
End DefsEq.

(* ================================================================ part 2: permuted lists *)

Lemma assocL_notin {A} k (l : list (list N * A)) : ~ In k (map fst l) -> assocL k l = None.
Proof.
  induction l as [|[k' v] l IH]; intro H; cbn [assocL]; [reflexivity|].
  destruct (list_eqb k k') eqn:E; [apply list_eqb_eq in E; subst; exfalso; apply H; now left|].
  apply IH. intro Hin. apply H. now right.
Qed.

Lemma assocL_perm {A} (l l' : list (list N * A)) : Permutation l l' -> NoDup (map fst l) ->
  forall k, assocL k l = assocL k l'.
Proof.
  induction 1 as [|[k1 v1] l l' Hp IH|[k1 v1] [k2 v2] l|l1 l2 l3 H1 IH1 H2 IH2]; intros Hnd k.
  - reflexivity.
  - cbn [assocL]. inversion Hnd; subst. rewrite IH by assumption. reflexivity.
  - cbn [assocL]. destruct (list_eqb k k2) eqn:E2, (list_eqb k k1) eqn:E1; try reflexivity.
    apply list_eqb_eq in E1, E2. subst. inversion Hnd as [|? ? Hn _]; subst. exfalso. apply Hn. now left.
  - rewrite IH1 by assumption. apply IH2. eapply Permutation_NoDup; [|exact Hnd]. apply Permutation_map. exact H1.
Qed.

Lemma existsb_perm {A} (p : A -> bool) l l' : Permutation l l' -> existsb p l = existsb p l'.
Proof.
  induction 1 as [|x l l' _ IH|x y l|l1 l2 l3 _ IH1 _ IH2]; cbn [existsb]; try congruence.
  destruct (p x), (p y); reflexivity.
Qed.

Lemma existsb_ext' {A} (p q : A -> bool) l : (forall x, p x = q x) -> existsb p l = existsb q l.
Proof. intro H. induction l as [|x l IH]; cbn [existsb]; [reflexivity|]. rewrite H, IH. reflexivity. Qed.

Lemma memL_perm x l l' : Permutation l l' -> memL x l = memL x l'.
Proof. apply existsb_perm. Qed.

Lemma find_perm_unique {A} (p : A -> bool) l l' : Permutation l l' ->
  (forall x y, In x l -> In y l -> p x = true -> p y = true -> x = y) -> find p l = find p l'.
Proof.
  induction 1 as [|x l l' Hp IH|x y l|l1 l2 l3 H1 IH1 H2 IH2]; intros Hu.
  - reflexivity.
  - cbn [find]. destruct (p x); [reflexivity|]. apply IH. intros a b Ha Hb. apply Hu; now right.
  - cbn [find]. destruct (p y) eqn:Ey, (p x) eqn:Ex; try reflexivity.
    f_equal. apply Hu; [now left|right; now left|assumption|assumption].
  - rewrite IH1 by assumption. apply IH2. intros a b Ha Hb. apply Hu; eapply Permutation_in; try eassumption; now apply Permutation_sym.
Qed.

Lemma fn_name_unique (x y : ufndef) : forall l, NoDup (map uf_name l) -> In x l -> In y l -> uf_name x = uf_name y -> x = y.
Proof.
  induction l as [|d l IH]; intros Hnd Hx Hy E; [destruct Hx|]. inversion Hnd as [|? ? Hn Hnd']; subst.
  destruct Hx as [->|Hx], Hy as [->|Hy]; auto.
  - exfalso. apply Hn. rewrite E. now apply in_map.
  - exfalso. apply Hn. rewrite <- E. now apply in_map.
Qed.

Lemma find_fn_perm (l l' : list ufndef) : Permutation l l' -> NoDup (map uf_name l) ->
  forall id, find (fun d => list_eqb (uf_name d) id) l = find (fun d => list_eqb (uf_name d) id) l'.
Proof.
  intros Hp Hnd id. apply find_perm_unique; [exact Hp|]. intros x y Hx Hy Ex Ey.
  apply list_eqb_eq in Ex, Ey.
  assert (G : forall l, NoDup (map uf_name l) -> In x l -> In y l -> uf_name x = uf_name y -> x = y).
  { clear. induction l as [|d l IH]; intros Hnd Hx Hy E; [destruct Hx|]. inversion Hnd as [|? ? Hn Hnd']; subst.
    destruct Hx as [->|Hx], Hy as [->|Hy]; auto.
    - exfalso. apply Hn. rewrite E. now apply in_map.
    - exfalso. apply Hn. rewrite <- E. now apply in_map. }
  apply (G l Hnd Hx Hy). congruence.
Qed.

(* acceptance of a mapM does not depend on the order; the outputs are permuted *)
Lemma mapM_perm {A B} (f : A -> cres B) l l' : Permutation l l' ->
  match mapM f l, mapM f l' with
  | COk r, COk r' => Permutation r r'
  | COk _, _ | _, COk _ => False
  | _, _ => True
  end.
Proof.
  induction 1 as [|x l l' _ IH|x y l|l1 l2 l3 _ IH1 _ IH2]; cbn [mapM].
  - constructor.
  - destruct (f x); cbn [cbind]; auto. destruct (mapM f l), (mapM f l'); cbn [cbind]; auto; try (now constructor).
  - destruct (f x), (f y); cbn [cbind]; auto; destruct (mapM f l); cbn [cbind]; auto; try apply perm_swap.
  - destruct (mapM f l1), (mapM f l2), (mapM f l3); auto; try contradiction. eapply Permutation_trans; eassumption.
Qed.

Lemma mapM_ext {A B} (f g : A -> cres B) l : (forall x, In x l -> f x = g x) -> mapM f l = mapM g l.
Proof.
  induction l as [|x l IH]; intro H; cbn [mapM]; [reflexivity|]. rewrite (H x) by now left.
  rewrite IH; [reflexivity|]. intros; apply H; now right.
Qed.

Lemma check_struct_def_eq sn en sn' en' sd : (forall n, memL n sn' = memL n sn) -> (forall n, memL n en' = memL n en) ->
  check_struct_def sn' en' sd = check_struct_def sn en sd.
Proof.
  intros H1 H2. unfold check_struct_def. f_equal. generalize (@nil (list N)).
  induction (us_fields sd) as [|[n t] fs IH]; intros seen; [reflexivity|].
  rewrite (as_concrete_type_eq sn en sn' en' H1 H2). rewrite IH. reflexivity.
Qed.

Lemma check_enum_def_eq sn en sn' en' ed : (forall n, memL n sn' = memL n sn) -> (forall n, memL n en' = memL n en) ->
  check_enum_def sn' en' ed = check_enum_def sn en ed.
Proof.
  intros H1 H2. unfold check_enum_def. f_equal. generalize (@nil (list N)).
  induction (ue_variants ed) as [|v vs IH]; intros seen; [reflexivity|].
  rewrite IH. destruct v; [reflexivity|].
  rewrite (mapM_ext (as_concrete_type sn' en') (as_concrete_type sn en)); [reflexivity|].
  intros; apply as_concrete_type_eq; assumption.
Qed.

Lemma struct_def_name sn en sd r : check_struct_def sn en sd = COk r -> fst r = us_name sd.
Proof. unfold check_struct_def. intro H. destruct (_ [] (us_fields sd)); cbn [cbind] in H; try discriminate. injection H as <-. reflexivity. Qed.
Lemma enum_def_name sn en ed r : check_enum_def sn en ed = COk r -> fst r = ue_name ed.
Proof. unfold check_enum_def. intro H. destruct (_ [] (ue_variants ed)); cbn [cbind] in H; try discriminate. injection H as <-. reflexivity. Qed.

Lemma mapM_names {A B} (f : A -> cres (list N * B)) (nm : A -> list N) :
  (forall x r, f x = COk r -> fst r = nm x) -> forall l r, mapM f l = COk r -> map fst r = map nm l.
Proof.
  intro H. induction l as [|x l IH]; intros r E; cbn [mapM] in E; [injection E as <-; reflexivity|].
  destruct (f x) as [rx| | |] eqn:Ex; cbn [cbind] in E; try discriminate.
  destruct (mapM f l) as [rl| | |]; cbn [cbind] in E; try discriminate. injection E as <-.
  cbn [map]. rewrite (H x rx Ex), (IH rl eq_refl). reflexivity.
Qed.

Lemma contains_type_def_eq structs enums structs' enums' target :
  (forall n, assocL n structs' = assocL n structs) -> (forall n, assocL n enums' = assocL n enums) ->
  forall f visited ty, contains_type_def f structs' enums' target visited ty = contains_type_def f structs enums target visited ty.
Proof.
  intros H1 H2. induction f as [|f IH]; intros visited ty; [reflexivity|]. cbn [contains_type_def].
  assert (Hany : forall tys visited,
    (fix go (tys : list cty) (visited : list (list N)) : cres (bool * list (list N)) :=
          match tys with
          | [] => COk (false, visited)
          | t :: r => do r1 <- contains_type_def f structs' enums' target visited t; if fst r1 then COk r1 else go r (snd r1)
          end) tys visited =
    (fix go (tys : list cty) (visited : list (list N)) : cres (bool * list (list N)) :=
          match tys with
          | [] => COk (false, visited)
          | t :: r => do r1 <- contains_type_def f structs enums target visited t; if fst r1 then COk r1 else go r (snd r1)
          end) tys visited).
  { induction tys as [|t tys IHt]; intros v; [reflexivity|]. rewrite IH.
    destruct (contains_type_def f structs enums target v t) as [r1| | |]; cbn [cbind]; try reflexivity.
    destruct (fst r1); [reflexivity|apply IHt]. }
  cbv zeta. destruct ty; try reflexivity; try apply Hany; try apply IH.
  - rewrite H1, H2. destruct (memL name visited); [reflexivity|apply Hany].
  - rewrite H1, H2. destruct (memL name visited); [reflexivity|apply Hany].
Qed.

(* ================================================================ part 3: whole programs *)

From GV Require Import Check.PermSort Check.PermExh.

(* acceptance-equivalence of two results *)
Definition rel2 {A B} (X : A -> B -> Prop) (r : cres A) (r' : cres B) : Prop :=
  match r, r' with
  | COk a, COk a' => X a a'
  | COk _, _ | _, COk _ => False
  | _, _ => True
  end.

Lemma rel2_bind {A B A' B'} (X : A -> A' -> Prop) (Y : B -> B' -> Prop) r r' (k : A -> cres B) (k' : A' -> cres B') :
  rel2 X r r' -> (forall a a', X a a' -> rel2 Y (k a) (k' a')) -> rel2 Y (cbind r k) (cbind r' k').
Proof. destruct r, r'; cbn [rel2 cbind]; auto; try contradiction. Qed.

Lemma rel2_is_ok {A B} (X : A -> B -> Prop) r r' : rel2 X r r' -> is_ok r = is_ok r'.
Proof. destruct r, r'; cbn [rel2 is_ok]; auto; contradiction. Qed.

Lemma rres_rel2 {A} (X : A -> A -> Prop) r r' : rres X r r' -> rel2 X r r'.
Proof. destruct r, r'; cbn [rres rel2]; auto. Qed.

(* the pub-fn loop of UntypedProgram::type_check *)
Definition pub_go (intern : list N -> N) (fuel : nat) (D : defs) : list ufndef -> cstate -> cres cstate :=
  fix go (fns : list ufndef) (st : cstate) : cres cstate :=
    match fns with
    | [] => COk st
    | fd :: r =>
        if uf_pub fd then
          match uf_params fd with
          | [] => CErr E_PubFnWithoutParams
          | _ =>
              do r1 <- check_fn intern fuel D st fd;
              go r (mkSt (st_env (snd r1))
                         ((uf_name fd, fst r1) ::
                          filter (fun nd => negb (list_eqb (fst nd) (uf_name fd))) (st_typed (snd r1)))
                         (st_checking (snd r1)))
          end
        else go r st
    end.

Definition rec_check (fuel : nat) structs enums (name : list N) : cres unit :=
  let ty := match assocL name structs with Some _ => CStruct name | None => CEnum name end in
  do r <- contains_type_def fuel structs enums name [] ty;
  if fst r then CErr E_RecursiveTypeDef else COk tt.

Definition defs_of (P : uprogram) (consts : list (list N * texpr)) structs enums : defs :=
  mkDefs (map (fun c => (fst c, ty_of (snd c))) consts) structs enums (up_fns P)
         (map us_name (up_structs P)) (map ue_name (up_enums P)).

Lemma check_program_t_unfold intern fuel P : check_program_t intern fuel P =
  (do consts <- check_consts (up_consts P) [];
   do structs <- mapM (check_struct_def (map us_name (up_structs P)) (map ue_name (up_enums P))) (up_structs P);
   do enums <- mapM (check_enum_def (map us_name (up_structs P)) (map ue_name (up_enums P))) (up_enums P);
   do _ <- mapM (rec_check fuel structs enums) (map fst structs ++ map fst enums);
   do st <- pub_go intern fuel (defs_of P consts structs enums) (up_fns P) (mkSt env_new [] []);
   if existsb (fun fd => negb (uf_pub fd) &&
                         negb (match assocL (uf_name fd) (st_typed st) with Some _ => true | None => false end))
              (up_fns P)
   then CErr E_UnusedFn
   else COk (mkTProgram consts structs enums (st_typed st) (up_main P))).
Proof. reflexivity. Qed.

Lemma check_fn_frame intern f D st fd r : check_fn intern f D st fd = COk r ->
  st_env (snd r) = st_env st /\ st_checking (snd r) = st_checking st.
Proof.
  intro H. split; [exact (proj2 (proj2 (proj2 (proj2 (check_env intern f D)))) st fd r H)|].
  destruct f as [|f]; [discriminate H|]. cbn [check_fn] in H.
  destruct (memL _ _); [discriminate H|]. cbv zeta in H.
  apply cbind_ok in H. destruct H as [rp [_ H]]. apply cbind_ok in H. destruct H as [[[body bty] st1] [_ H]].
  cbv beta iota in H. apply cbind_ok in H. destruct H as [rt [_ H]]. apply cbind_ok in H. destruct H as [b' [_ H]].
  injection H as <-. reflexivity.
Qed.

Definition nocall_fn (fd : ufndef) : Prop := forallb ncb_s (uf_body fd) = true.

Section GoSpec.
Variable intern : list N -> N.
Variable fuel : nat.
Variable D : defs.

Definition can (fd : ufndef) : cres (tfndef * cstate) := check_fn intern fuel D (mkSt env_new [] []) fd.

(* a function without calls: its check does not look at the typed map *)
Lemma fn_indep fd T : nocall_fn fd ->
  match can fd, check_fn intern fuel D (mkSt env_new T []) fd with
  | COk r, COk r' => fst r = fst r' /\ snd r' = mkSt env_new T []
  | COk _, _ | _, COk _ => False
  | _, _ => True
  end.
Proof.
  intro Hnc. unfold can.
  pose proof (check_rel intern D D eq_refl (fun _ => eq_refl) (fun _ => eq_refl) (fun _ => eq_refl) (fun _ => eq_refl)
                (fun _ => eq_refl) (fun _ _ => eq_refl) true (fun a b => a = [] /\ b = T)
                ltac:(discriminate) ltac:(discriminate) fuel) as (_ & _ & _ & _ & HF).
  specialize (HF (mkSt env_new [] []) (mkSt env_new T []) fd).
  assert (Hseq : st_rel (fun a b => a = [] /\ b = T) (mkSt env_new [] []) (mkSt env_new T [])) by (repeat split).
  specialize (HF Hseq (fun _ => Hnc)).
  destruct (check_fn intern fuel D (mkSt env_new [] []) fd) as [r| | |] eqn:E1,
           (check_fn intern fuel D (mkSt env_new T []) fd) as [r'| | |] eqn:E2; cbn [rres] in HF; try contradiction; try exact I.
  destruct HF as [Hfst (_ & _ & _ & HT)]. split; [exact Hfst|].
  destruct (check_fn_frame _ _ _ _ _ _ E2) as [He Hc]. cbn [st_env st_checking] in He, Hc.
  destruct (snd r') as [g t c]. cbn [st_env st_checking st_typed] in *. subst. reflexivity.
Qed.

Definition pubfind (n : list N) (fns : list ufndef) : option ufndef :=
  find (fun fd => uf_pub fd && list_eqb (uf_name fd) n) fns.

Definition lookup_spec (fns : list ufndef) (T : list (list N * tfndef)) (n : list N) : option tfndef :=
  match pubfind n fns with
  | Some fd => match can fd with COk r => Some (fst r) | _ => None end
  | None => assocL n T
  end.

Lemma assocL_filter_neq {A} k k' (T : list (list N * A)) : list_eqb k k' = false ->
  assocL k (filter (fun nd => negb (list_eqb (fst nd) k')) T) = assocL k T.
Proof.
  intro H. induction T as [|[k0 v] T IH]; [reflexivity|]. cbn [filter fst].
  destruct (list_eqb k0 k') eqn:E; cbn [negb assocL].
  - apply list_eqb_eq in E. subst k0. rewrite H. exact IH.
  - destruct (list_eqb k k0); [reflexivity|exact IH].
Qed.

Lemma filter_keys_NoDup {A} p (T : list (list N * A)) : NoDup (map fst T) -> NoDup (map fst (filter p T)).
Proof.
  induction T as [|[k v] T IH]; intro H; [constructor|]. inversion H as [|? ? Hn Hnd]; subst. cbn [filter].
  destruct (p (k, v)); [|apply IH; exact Hnd]. cbn [map fst]. constructor; [|apply IH; exact Hnd].
  intro Hin. apply Hn. apply in_map_iff in Hin. destruct Hin as (x & <- & Hx). apply filter_In in Hx. apply in_map. apply Hx.
Qed.

Lemma filter_removes {A} k (T : list (list N * A)) : ~ In k (map fst (filter (fun nd => negb (list_eqb (fst nd) k)) T)).
Proof.
  intro Hin. apply in_map_iff in Hin. destruct Hin as ([k0 v] & E & Hx). cbn [fst] in E. subst k0.
  apply filter_In in Hx. destruct Hx as [_ Hx]. cbn [fst] in Hx. rewrite list_eqb_refl in Hx. discriminate.
Qed.

Lemma list_eqb_sym a b : list_eqb a b = list_eqb b a.
Proof.
  destruct (list_eqb a b) eqn:E1, (list_eqb b a) eqn:E2; try reflexivity.
  - apply list_eqb_eq in E1. subst. rewrite list_eqb_refl in E2. discriminate.
  - apply list_eqb_eq in E2. subst. rewrite list_eqb_refl in E1. discriminate.
Qed.

Lemma pubfind_notin n fns : ~ In n (map uf_name fns) -> pubfind n fns = None.
Proof.
  unfold pubfind. induction fns as [|fd fns IH]; intro H; [reflexivity|]. cbn [find].
  destruct (list_eqb (uf_name fd) n) eqn:E.
  - apply list_eqb_eq in E. exfalso. apply H. left. exact E.
  - rewrite andb_false_r. apply IH. intro Hin. apply H. now right.
Qed.

Lemma go_spec : forall fns T, NoDup (map uf_name fns) -> (forall fd, In fd fns -> nocall_fn fd) -> NoDup (map fst T) ->
  match pub_go intern fuel D fns (mkSt env_new T []) with
  | COk st' => st_env st' = env_new /\ st_checking st' = [] /\ NoDup (map fst (st_typed st')) /\
      (forall fd, In fd fns -> uf_pub fd = true -> uf_params fd <> [] /\ is_ok (can fd) = true) /\
      (forall n, assocL n (st_typed st') = lookup_spec fns T n)
  | _ => exists fd, In fd fns /\ uf_pub fd = true /\ (uf_params fd = [] \/ is_ok (can fd) = false)
  end.
Proof.
  induction fns as [|fd fns IH]; intros T Hnd Hnc HT; cbn [pub_go].
  - repeat split; try assumption; try reflexivity; match goal with H : In _ [] |- _ => destruct H end.
  - inversion Hnd as [|? ? Hn Hnd']; subst.
    assert (Hnc' : forall fd0, In fd0 fns -> nocall_fn fd0) by (intros; apply Hnc; now right).
    destruct (uf_pub fd) eqn:Epub.
    + destruct (uf_params fd) as [|p0 ps] eqn:Epar.
      { exists fd. split; [now left|]. split; [exact Epub|left; exact Epar]. }
      pose proof (fn_indep fd T (Hnc fd (or_introl eq_refl))) as Hi.
      destruct (can fd) as [r| | |] eqn:Ecan, (check_fn intern fuel D (mkSt env_new T []) fd) as [r'| | |] eqn:Erun;
        try contradiction; cbn [cbind];
        try (exists fd; split; [now left|]; split; [exact Epub|right; rewrite Ecan; reflexivity]).
      destruct Hi as [Hfst Hsnd]. rewrite Hsnd. cbn [st_env st_typed st_checking].
      set (T' := (uf_name fd, fst r') :: filter (fun nd => negb (list_eqb (fst nd) (uf_name fd))) T).
      assert (HT' : NoDup (map fst T')).
      { unfold T'. cbn [map fst]. constructor; [apply filter_removes|apply filter_keys_NoDup; exact HT]. }
      specialize (IH T' Hnd' Hnc' HT').
      destruct (pub_go intern fuel D fns (mkSt env_new T' [])) as [st'| | |];
        try (destruct IH as (fd0 & Hin & Hp & Hbad); exists fd0; split; [now right|split; assumption]).
      destruct IH as (He & Hc & Hk & Hall & Hlook). repeat split; try assumption.
      * destruct H as [<-|Hin]; [rewrite Epar; discriminate|apply Hall; assumption].
      * destruct H as [<-|Hin]; [rewrite Ecan; reflexivity|apply Hall; assumption].
      * intro n. rewrite Hlook. unfold lookup_spec, pubfind. cbn [find]. rewrite Epub. cbn [andb].
        destruct (list_eqb (uf_name fd) n) eqn:En.
        -- apply list_eqb_eq in En. subst n. fold (pubfind (uf_name fd) fns). rewrite (pubfind_notin _ _ Hn).
           unfold T'. cbn [assocL]. rewrite list_eqb_refl. rewrite Ecan, Hfst. reflexivity.
        -- fold (pubfind n fns). destruct (pubfind n fns); [reflexivity|].
           unfold T'. cbn [assocL]. rewrite list_eqb_sym, En. apply assocL_filter_neq. rewrite list_eqb_sym. exact En.
    + specialize (IH T Hnd' Hnc' HT).
      destruct (pub_go intern fuel D fns (mkSt env_new T [])) as [st'| | |];
        try (destruct IH as (fd0 & Hin & Hp & Hbad); exists fd0; split; [now right|split; assumption]).
      destruct IH as (He & Hc & Hk & Hall & Hlook). repeat split; try assumption.
      * destruct H as [<-|Hin]; [congruence|apply Hall; assumption].
      * destruct H as [<-|Hin]; [congruence|apply Hall; assumption].
      * intro n. rewrite Hlook. unfold lookup_spec, pubfind. cbn [find]. rewrite Epub. reflexivity.
Qed.
End GoSpec.

(* ================================================================ the theorem, for programs without calls *)

Section NoCalls.
Variable intern : list N -> N.
Hypothesis intern_inj : forall a b, intern a = intern b -> a = b.
Variables P Q : uprogram.
Variable fuel : nat.
Hypothesis Hconsts : up_consts Q = up_consts P.
Hypothesis Hmain : up_main Q = up_main P.
Hypothesis Hfns : Permutation (up_fns P) (up_fns Q).
Hypothesis Hstructs : Permutation (up_structs P) (up_structs Q).
Hypothesis Henums : Permutation (up_enums P) (up_enums Q).
Hypothesis ND_fns : NoDup (map uf_name (up_fns P)).
Hypothesis ND_structs : NoDup (map us_name (up_structs P)).
Hypothesis ND_enums : NoDup (map ue_name (up_enums P)).
Hypothesis Hnocall : forall fd, In fd (up_fns P) -> nocall_fn fd.

Definition tp_rel (T T' : tprogram) : Prop :=
  tp_consts T = tp_consts T' /\ Permutation (tp_structs T) (tp_structs T') /\ Permutation (tp_enums T) (tp_enums T') /\
  (forall n, assocL n (tp_fns T) = assocL n (tp_fns T')) /\
  NoDup (map fst (tp_fns T)) /\ NoDup (map fst (tp_fns T')) /\
  NoDup (map fst (tp_structs T)) /\ NoDup (map fst (tp_enums T)) /\ tp_main T = tp_main T'.

Lemma check_perm_nocalls : rel2 tp_rel (check_program_t intern fuel P) (check_program_t intern fuel Q).
Proof.
  rewrite !check_program_t_unfold. rewrite Hconsts, Hmain.
  assert (Msn : forall n, memL n (map us_name (up_structs Q)) = memL n (map us_name (up_structs P)))
    by (intro n; symmetry; apply memL_perm, Permutation_map, Hstructs).
  assert (Men : forall n, memL n (map ue_name (up_enums Q)) = memL n (map ue_name (up_enums P)))
    by (intro n; symmetry; apply memL_perm, Permutation_map, Henums).
  destruct (check_consts (up_consts P) []) as [consts| | |]; cbn [cbind rel2]; auto.
  (* structs *)
  eapply rel2_bind with (X := fun s s' => Permutation s s' /\ map fst s = map us_name (up_structs P)).
  { rewrite (mapM_ext (check_struct_def (map us_name (up_structs Q)) (map ue_name (up_enums Q)))
                      (check_struct_def (map us_name (up_structs P)) (map ue_name (up_enums P))))
      by (intros; apply check_struct_def_eq; assumption).
    pose proof (mapM_perm (check_struct_def (map us_name (up_structs P)) (map ue_name (up_enums P))) _ _ Hstructs) as Hp.
    destruct (mapM _ (up_structs P)) as [s| | |] eqn:E1, (mapM _ (up_structs Q)) as [s'| | |]; cbn [rel2]; auto.
    split; [exact Hp|]. eapply mapM_names; [|exact E1]. intros x r. apply struct_def_name. }
  intros structs structs' [Ps Ns].
  eapply rel2_bind with (X := fun s s' => Permutation s s' /\ map fst s = map ue_name (up_enums P)).
  { rewrite (mapM_ext (check_enum_def (map us_name (up_structs Q)) (map ue_name (up_enums Q)))
                      (check_enum_def (map us_name (up_structs P)) (map ue_name (up_enums P))))
      by (intros; apply check_enum_def_eq; assumption).
    pose proof (mapM_perm (check_enum_def (map us_name (up_structs P)) (map ue_name (up_enums P))) _ _ Henums) as Hp.
    destruct (mapM _ (up_enums P)) as [s| | |] eqn:E1, (mapM _ (up_enums Q)) as [s'| | |]; cbn [rel2]; auto.
    split; [exact Hp|]. eapply mapM_names; [|exact E1]. intros x r. apply enum_def_name. }
  intros enums enums' [Pe Ne].
  assert (NDs : NoDup (map fst structs)) by (rewrite Ns; exact ND_structs).
  assert (NDe : NoDup (map fst enums)) by (rewrite Ne; exact ND_enums).
  assert (As : forall n, assocL n structs' = assocL n structs) by (intro n; symmetry; apply assocL_perm; assumption).
  assert (Ae : forall n, assocL n enums' = assocL n enums) by (intro n; symmetry; apply assocL_perm; assumption).
  (* recursive type definitions *)
  eapply rel2_bind with (X := fun _ _ => True).
  { rewrite (mapM_ext (rec_check fuel structs' enums') (rec_check fuel structs enums)).
    2:{ intros x _. unfold rec_check. rewrite As. cbv zeta. rewrite (contains_type_def_eq structs enums structs' enums' x As Ae). reflexivity. }
    assert (Hpn : Permutation (map fst structs ++ map fst enums) (map fst structs' ++ map fst enums'))
      by (apply Permutation_app; apply Permutation_map; assumption).
    pose proof (mapM_perm (rec_check fuel structs enums) _ _ Hpn) as Hp.
    destruct (mapM _ (map fst structs ++ map fst enums)), (mapM _ (map fst structs' ++ map fst enums')); cbn [rel2]; auto. }
  intros _ _ _.
  (* the two definition environments answer alike *)
  set (D := defs_of P consts structs enums). set (D' := defs_of Q consts structs' enums').
  assert (Hfind : forall id, find (fun d => list_eqb (uf_name d) id) (d_fns D') = find (fun d => list_eqb (uf_name d) id) (d_fns D))
    by (intro id; symmetry; apply find_fn_perm; assumption).
  assert (Hexh : forall ps ty, check_exhaustiveness intern D' ps ty = check_exhaustiveness intern D ps ty)
    by (intros; symmetry; apply check_exhaustiveness_perm; assumption).
  pose proof (check_rel intern D D' eq_refl As Ae Hfind Msn Men Hexh true (fun a b => a = [] /\ b = [])
                ltac:(discriminate) ltac:(discriminate) fuel) as (_ & _ & _ & _ & HF).
  assert (Hcan : forall fd, In fd (up_fns P) -> rres (fun r r' => fst r = fst r') (can intern fuel D fd) (can intern fuel D' fd)).
  { intros fd Hin. unfold can. specialize (HF (mkSt env_new [] []) (mkSt env_new [] []) fd ltac:(repeat split) (fun _ => Hnocall fd Hin)).
    destruct (check_fn intern fuel D _ fd), (check_fn intern fuel D' _ fd); cbn [rres] in *; auto. apply HF. }
  assert (ND_fnsQ : NoDup (map uf_name (up_fns Q))) by (eapply Permutation_NoDup; [apply Permutation_map; exact Hfns|exact ND_fns]).
  assert (HnocallQ : forall fd, In fd (up_fns Q) -> nocall_fn fd)
    by (intros fd Hin; apply Hnocall; eapply Permutation_in; [apply Permutation_sym; exact Hfns|exact Hin]).
  pose proof (go_spec intern fuel D (up_fns P) [] ND_fns Hnocall ltac:(constructor)) as GP.
  pose proof (go_spec intern fuel D' (up_fns Q) [] ND_fnsQ HnocallQ ltac:(constructor)) as GQ.
  change (d_fns D) with (up_fns P) in *. 
  eapply rel2_bind with (X := fun st st' => (forall n, assocL n (st_typed st) = assocL n (st_typed st')) /\
                                            NoDup (map fst (st_typed st)) /\ NoDup (map fst (st_typed st'))).
  { destruct (pub_go intern fuel D (up_fns P) _) as [st| | |] eqn:EP, (pub_go intern fuel D' (up_fns Q) _) as [st'| | |] eqn:EQ;
      cbn [rel2]; auto.
    1:{ destruct GP as (_ & _ & K1 & _ & L1). destruct GQ as (_ & _ & K2 & _ & L2). split; [|split; assumption].
      intro n. rewrite L1, L2. unfold lookup_spec, pubfind.
      rewrite <- (find_perm_unique _ _ _ Hfns).
      2:{ intros x y Hx Hy Ex Ey. apply andb_true_iff in Ex, Ey. destruct Ex as [_ Ex], Ey as [_ Ey].
          apply list_eqb_eq in Ex, Ey.
          apply (fn_name_unique x y _ ND_fns Hx Hy). congruence. }
      destruct (find _ (up_fns P)) as [fd|] eqn:Efd; [|reflexivity].
      apply find_some in Efd. destruct Efd as [Hin _]. specialize (Hcan fd Hin).
      destruct (can intern fuel D fd), (can intern fuel D' fd); cbn [rres] in Hcan; try contradiction; try reflexivity.
      rewrite Hcan. reflexivity. }
    all: try (destruct GP as (_ & _ & _ & Hall & _); destruct GQ as (fd & Hin & Hp & Hbad);
      assert (HinP : In fd (up_fns P)) by (eapply Permutation_in; [apply Permutation_sym; exact Hfns|exact Hin]);
      destruct (Hall fd HinP Hp) as [H1 H2]; destruct Hbad as [Hb|Hb]; [contradiction|];
      specialize (Hcan fd HinP); destruct (can intern fuel D fd), (can intern fuel D' fd); cbn [rres is_ok] in *; try discriminate; contradiction).
    all: try (destruct GQ as (_ & _ & _ & Hall & _); destruct GP as (fd & Hin & Hp & Hbad);
      assert (HinQ : In fd (up_fns Q)) by (eapply Permutation_in; [exact Hfns|exact Hin]);
      destruct (Hall fd HinQ Hp) as [H1 H2]; destruct Hbad as [Hb|Hb]; [contradiction|];
      specialize (Hcan fd Hin); destruct (can intern fuel D fd), (can intern fuel D' fd); cbn [rres is_ok] in *; try discriminate; contradiction). }
  intros st st' (Hl & K1 & K2).
  rewrite <- (existsb_perm _ _ _ Hfns).
  rewrite (existsb_ext' (fun fd => negb (uf_pub fd) && negb match assocL (uf_name fd) (st_typed st') with Some _ => true | None => false end)
                        (fun fd => negb (uf_pub fd) && negb match assocL (uf_name fd) (st_typed st) with Some _ => true | None => false end)).
  2:{ intro fd. rewrite <- Hl. reflexivity. }
  destruct (existsb _ (up_fns P)); cbn [rel2]; auto.
  unfold tp_rel. cbn [tp_consts tp_structs tp_enums tp_fns tp_main]. repeat split; assumption.
Qed.
End NoCalls.

(* (1) ACCEPTANCE does not depend on the order of the three lists (programs without calls) *)
Theorem check_perm_accept_nocalls intern P Q fuel :
  (forall a b, intern a = intern b -> a = b) ->
  up_consts Q = up_consts P -> up_main Q = up_main P ->
  Permutation (up_fns P) (up_fns Q) -> Permutation (up_structs P) (up_structs Q) -> Permutation (up_enums P) (up_enums Q) ->
  NoDup (map uf_name (up_fns P)) -> NoDup (map us_name (up_structs P)) -> NoDup (map ue_name (up_enums P)) ->
  (forall fd, In fd (up_fns P) -> nocall_fn fd) ->
  is_ok (check_program_t intern fuel P) = is_ok (check_program_t intern fuel Q).
Proof. intros. eapply rel2_is_ok. apply check_perm_nocalls; assumption. Qed.

(* (2) ... and when accepted the typed programs agree: same consts, the same struct / enum
   definitions up to order, and the SAME typed function for every name *)
Theorem check_perm_typed_nocalls intern P Q fuel TP TQ :
  (forall a b, intern a = intern b -> a = b) ->
  up_consts Q = up_consts P -> up_main Q = up_main P ->
  Permutation (up_fns P) (up_fns Q) -> Permutation (up_structs P) (up_structs Q) -> Permutation (up_enums P) (up_enums Q) ->
  NoDup (map uf_name (up_fns P)) -> NoDup (map us_name (up_structs P)) -> NoDup (map ue_name (up_enums P)) ->
  (forall fd, In fd (up_fns P) -> nocall_fn fd) ->
  check_program_t intern fuel P = COk TP -> check_program_t intern fuel Q = COk TQ ->
  tp_consts TP = tp_consts TQ /\ Permutation (tp_structs TP) (tp_structs TQ) /\ Permutation (tp_enums TP) (tp_enums TQ) /\
  (forall name, assocL name (tp_fns TP) = assocL name (tp_fns TQ)) /\ tp_main TP = tp_main TQ.
Proof.
  intros Hi H1 H2 H3 H4 H5 H6 H7 H8 H9 EP EQ.
  pose proof (check_perm_nocalls intern Hi P Q fuel H1 H2 H3 H4 H5 H6 H7 H8 H9) as H. rewrite EP, EQ in H.
  destruct H as (A & B & C & E & _ & _ & _ & _ & F). repeat split; assumption.
Qed.

Print Assumptions check_rel.
Print Assumptions check_perm_accept_nocalls.
Print Assumptions check_perm_typed_nocalls.

(* ================================================================ examples (vm_compute) *)

From Coq Require Import String.
From GV Require Check.InferExamples.

Module PermExamples.
Local Open Scope string_scope.

Definition parse_text (txt : string) : option uprogram :=
  match scan_text (codes txt) with
  | Ok (STokens ts) =>
      match parse_program_text (fuel_for_tokens ts) ts with
      | POk up _ => Some (uprogram_of_parsed up (codes "main"))
      | _ => None
      end
  | _ => None
  end.

(* the same program with its three maps walked in the opposite order *)
Definition reversed (P : uprogram) : uprogram :=
  mkUProgram (up_consts P) (rev (up_structs P)) (rev (up_enums P)) (rev (up_fns P)) (up_main P).

Definition both (txt : string) : option (cres Ast.program * cres Ast.program) :=
  match parse_text txt with
  | Some P => Some (check_program InferExamples.ex_intern 200 P, check_program InferExamples.ex_intern 200 (reversed P))
  | None => None
  end.
Definition same_export (txt : string) : Prop :=
  match both txt with Some (COk A, COk B) => A = B | _ => False end.
Definition codes_of (txt : string) : option (option N * option N) :=
  match both txt with
  | Some (a, b) => Some (InferExamples.code_of a, InferExamples.code_of b)
  | None => None
  end.

(* without calls: two pub functions, a struct and an enum (an instance of the theorems) *)
Definition t_nocalls := "
  struct S { a: u8, b: bool }
  enum E { A, B(u8) }
  pub fn first(x: u8) -> u8 { let s = S { a: x, b: true }; match E::B(s.a) { E::A => 0, E::B(y) => y } }
  pub fn main(x: u8, y: u8) -> bool { x < y }".
Example nocalls_same : same_export t_nocalls.
Proof. vm_compute. reflexivity. Qed.

(* WITH calls (not covered by the theorems): callees checked on demand and memoised, a function
   that is both called and pub, a chain of calls.  The EXPORTED programs are equal. *)
Definition t_calls := "
  fn inc(a: u8) -> u8 { a + 1 }
  fn twice(a: u8) -> u8 { inc(inc(a)) }
  pub fn other(y: u8) -> u8 { inc(y) }
  pub fn main(x: u8) -> u8 { twice(x) + other(x) }".
Example calls_same : same_export t_calls.
Proof. vm_compute. reflexivity. Qed.

(* rejected in both orders, same code: mutual recursion, an unused function *)
Example recursion_both : codes_of "
  fn f(a: u8) -> u8 { g(a) }
  fn g(a: u8) -> u8 { f(a) }
  pub fn main(x: u8) -> u8 { f(x) }" = Some (Some E_RecursiveFnDef, Some E_RecursiveFnDef).
Proof. vm_compute. reflexivity. Qed.
Example unused_both : codes_of "
  fn f(a: u8) -> u8 { a }
  pub fn main(x: u8) -> u8 { x }" = Some (Some E_UnusedFn, Some E_UnusedFn).
Proof. vm_compute. reflexivity. Qed.

(* rejected in both orders with DIFFERENT codes: the model stops at the first error, and which
   error is first depends on the order (check.rs reports both; not an acceptance difference) *)
Example first_error_depends_on_order : codes_of "
  pub fn a(x: u8) -> bool { x }
  pub fn b() -> u8 { 1u8 }" = Some (Some E_UnexpectedType, Some E_PubFnWithoutParams).
Proof. vm_compute. reflexivity. Qed.

(* FUEL can make the order visible: a callee reached through a call is checked with less fuel
   than in the pub-fn loop (CNoFuel is never a Rust behaviour) *)
Definition fuel_visible (txt : string) (fuel : nat) : option (bool * bool) :=
  match parse_text txt with
  | Some P => Some (is_ok (check_program_t InferExamples.ex_intern fuel P),
                    is_ok (check_program_t InferExamples.ex_intern fuel (reversed P)))
  | None => None
  end.
Definition t_fuel := "
  pub fn g(a: u8) -> u8 { (((a + 1) + 1) + 1) + 1 }
  pub fn main(x: u8) -> u8 { g(x) }".
Example fuel_makes_order_visible :
  fuel_visible t_fuel 8 = Some (true, false) /\ fuel_visible t_fuel 12 = Some (true, true).
Proof. vm_compute. split; reflexivity. Qed.
End PermExamples.

(* ================================================================ the exported program *)

Section ExportExt.
Variable intern : list N -> N.
Variables enums enums' : list (list N * list (list N * option (list cty))).
Hypothesis Hen : forall e, assocL e enums' = assocL e enums.

Lemma variant_index_ext e v : variant_index enums' e v = variant_index enums e v.
Proof. unfold variant_index. rewrite Hen. reflexivity. Qed.

Lemma export_pattern_ext : forall p, export_pattern intern enums' p = export_pattern intern enums p.
Proof.
  fix IH 1. intros [pi t]. destruct pi; cbn [export_pattern]; try reflexivity.
  - do 2 f_equal. induction ps as [|y0 ys IHys]; cbn [map]; [reflexivity|]. rewrite IH, IHys. reflexivity.
  - do 2 f_equal. induction fields as [|[n0 q] ys IHys]; cbn [map fst snd]; [reflexivity|]. rewrite IH, IHys. reflexivity.
  - rewrite variant_index_ext. reflexivity.
  - rewrite variant_index_ext. do 2 f_equal. induction ps as [|y0 ys IHys]; cbn [map]; [reflexivity|]. rewrite IH, IHys. reflexivity.
Qed.

Lemma export_expr_ext : forall e, export_expr intern enums' e = export_expr intern enums e
with export_stmt_ext : forall s, export_stmt intern enums' s = export_stmt intern enums s
with export_accessor_ext : forall a, export_accessor intern enums' a = export_accessor intern enums a.
Proof.
  - intros [i t]. destruct i; cbn [export_expr]; try reflexivity.
    + do 2 f_equal. induction es as [|y0 ys IHys]; cbn [map]; [reflexivity|]. rewrite export_expr_ext, IHys. reflexivity.
    + rewrite export_expr_ext. reflexivity.
    + rewrite (export_expr_ext a), (export_expr_ext i). reflexivity.
    + do 2 f_equal. induction es as [|y0 ys IHys]; cbn [map]; [reflexivity|]. rewrite export_expr_ext, IHys. reflexivity.
    + rewrite export_expr_ext. reflexivity.
    + rewrite export_expr_ext. reflexivity.
    + do 2 f_equal. induction fields as [|[n0 q] ys IHys]; cbn [map fst snd]; [reflexivity|]. rewrite export_expr_ext, IHys. reflexivity.
    + rewrite variant_index_ext. do 2 f_equal. destruct args as [es|]; [|reflexivity].
      induction es as [|y0 ys IHys]; cbn [map]; [reflexivity|]. rewrite export_expr_ext, IHys. reflexivity.
    + rewrite (export_expr_ext e). do 2 f_equal.
      induction arms as [|[p0 a0] ys IHys]; cbn [map fst snd]; [reflexivity|]. rewrite export_pattern_ext, export_expr_ext, IHys. reflexivity.
    + destruct o; rewrite export_expr_ext; reflexivity.
    + rewrite (export_expr_ext l), (export_expr_ext r). reflexivity.
    + do 2 f_equal. induction b as [|y0 ys IHys]; cbn [map]; [reflexivity|]. rewrite export_stmt_ext, IHys. reflexivity.
    + do 2 f_equal. induction args as [|y0 ys IHys]; cbn [map]; [reflexivity|]. rewrite export_expr_ext, IHys. reflexivity.
    + rewrite (export_expr_ext c), (export_expr_ext t0), (export_expr_ext e). reflexivity.
    + rewrite export_expr_ext. reflexivity.
  - intros s. destruct s; cbn [export_stmt].
    + rewrite export_pattern_ext, export_expr_ext. reflexivity.
    + rewrite export_expr_ext. reflexivity.
    + rewrite export_expr_ext. do 2 f_equal.
      induction accs as [|y0 ys IHys]; cbn [map]; [reflexivity|]. rewrite export_accessor_ext, IHys. reflexivity.
    + rewrite export_pattern_ext, export_expr_ext. do 2 f_equal.
      induction body as [|y0 ys IHys]; cbn [map]; [reflexivity|]. rewrite export_stmt_ext, IHys. reflexivity.
    + rewrite export_expr_ext. reflexivity.
  - intros a. destruct a; cbn [export_accessor]; try reflexivity. rewrite export_expr_ext. reflexivity.
Qed.
End ExportExt.

Lemma assocL_In {A} k (v : A) l : assocL k l = Some v -> In (k, v) l.
Proof.
  induction l as [|[k' v'] l IH]; cbn [assocL]; [discriminate|].
  destruct (list_eqb k k') eqn:E; [apply list_eqb_eq in E; intros [= ->]; subst; now left|right; auto].
Qed.

Lemma assocL_eq_perm {A} : forall (l l' : list (list N * A)), NoDup (map fst l) -> NoDup (map fst l') ->
  (forall k, assocL k l = assocL k l') -> Permutation l l'.
Proof.
  induction l as [|[k v] l1 IH]; intros l' N1 N2 H.
  - destruct l' as [|[k v] l']; [constructor|]. specialize (H k). cbn [assocL] in H. rewrite list_eqb_refl in H. discriminate.
  - pose proof (H k) as Hk. cbn [assocL] in Hk. rewrite list_eqb_refl in Hk. symmetry in Hk. apply assocL_In in Hk.
    apply in_split in Hk. destruct Hk as (a & b & ->).
    assert (Pm : Permutation (a ++ (k, v) :: b) ((k, v) :: a ++ b)) by (apply Permutation_sym, Permutation_middle).
    assert (N2' : NoDup (map fst ((k, v) :: a ++ b))) by (eapply Permutation_NoDup; [apply Permutation_map; exact Pm|exact N2]).
    eapply Permutation_trans; [|apply Permutation_sym; exact Pm]. constructor.
    inversion N1 as [|? ? Hn1 N1']; subst. cbn [map fst] in N2'. inversion N2' as [|? ? Hn2 N2'']; subst.
    apply IH; [assumption|assumption|]. intro n.
    pose proof (H n) as Hn. rewrite (assocL_perm _ _ Pm N2 n) in Hn. cbn [assocL] in Hn.
    destruct (list_eqb n k) eqn:E; [|exact Hn].
    apply list_eqb_eq in E. subst n. rewrite (assocL_notin _ _ Hn1), (assocL_notin _ _ Hn2). reflexivity.
Qed.

Lemma export_program_rel intern T T' : tp_rel T T' -> export_program intern T = export_program intern T'.
Proof.
  intros (Hc & Ps & Pe & Hl & N1 & N2 & Ns & Ne & Hm). unfold export_program.
  assert (Hen : forall e, assocL e (tp_enums T') = assocL e (tp_enums T)) by (intro e; symmetry; apply assocL_perm; assumption).
  rewrite <- (sort_fields_perm _ _ Ps Ns), <- (sort_fields_perm _ _ Pe Ne).
  rewrite <- (sort_fields_perm _ _ (assocL_eq_perm _ _ N1 N2 Hl) N1). rewrite <- Hc, <- Hm. f_equal.
  - apply map_ext. intros nd. unfold export_fn. f_equal. apply map_ext. intro s. symmetry. apply export_stmt_ext. exact Hen.
  - apply map_ext. intros c. f_equal. symmetry. apply export_expr_ext. exact Hen.
Qed.

(* THE EXPORTED PROGRAMS ARE EQUAL (programs without calls) *)
Theorem check_perm_export_nocalls intern P Q fuel A B :
  (forall a b, intern a = intern b -> a = b) ->
  up_consts Q = up_consts P -> up_main Q = up_main P ->
  Permutation (up_fns P) (up_fns Q) -> Permutation (up_structs P) (up_structs Q) -> Permutation (up_enums P) (up_enums Q) ->
  NoDup (map uf_name (up_fns P)) -> NoDup (map us_name (up_structs P)) -> NoDup (map ue_name (up_enums P)) ->
  (forall fd, In fd (up_fns P) -> nocall_fn fd) ->
  check_program intern fuel P = COk A -> check_program intern fuel Q = COk B -> A = B.
Proof.
  intros Hi H1 H2 H3 H4 H5 H6 H7 H8 H9 EP EQ. unfold check_program in EP, EQ.
  pose proof (check_perm_nocalls intern Hi P Q fuel H1 H2 H3 H4 H5 H6 H7 H8 H9) as H.
  destruct (check_program_t intern fuel P) as [TP| | |]; cbn [cbind] in EP; try discriminate EP.
  destruct (check_program_t intern fuel Q) as [TQ| | |]; cbn [cbind] in EQ; try discriminate EQ.
  injection EP as <-. injection EQ as <-. apply export_program_rel. exact H.
Qed.

Print Assumptions check_perm_export_nocalls.
