(* Shared definitions: result type, N-indexed list access, sums. *)
From Coq Require Export List NArith ZArith Bool Lia.
Export ListNotations.
Open Scope N_scope.

Arguments N.add : simpl never.
Arguments N.sub : simpl never.
Arguments N.mul : simpl never.
Arguments N.eqb : simpl never.
Arguments N.ltb : simpl never.
Arguments N.leb : simpl never.

(* Outcome of a modelled Rust computation.
   [Crash]     : the Rust code panics at this point (index out of range, unwrap on None, ...)
   [OutOfFuel] : the explicit recursion fuel of the model ran out (never a Rust behaviour;
                 excluded by a fuel-adequacy lemma wherever it can occur). *)
Inductive res (A : Type) : Type :=
| Ok (a : A)
| Crash
| OutOfFuel.
Arguments Ok {A} a.
Arguments Crash {A}.
Arguments OutOfFuel {A}.

Definition bind {A B} (r : res A) (f : A -> res B) : res B :=
  match r with
  | Ok a => f a
  | Crash => Crash
  | OutOfFuel => OutOfFuel
  end.

Notation "'let*' x ':=' r 'in' k" := (bind r (fun x => k))
  (at level 200, x pattern, r at level 100, k at level 200).

Definition of_option {A} (o : option A) : res A :=
  match o with Some a => Ok a | None => Crash end.

Definition lenN {A} (l : list A) : N := N.of_nat (length l).

(* The bound test comes first so that the extracted code never converts a huge index to
   unary; [nthN_spec] shows it is just [nth_error]. *)
Definition nthN {A} (l : list A) (i : N) : option A :=
  if i <? lenN l then nth_error l (N.to_nat i) else None.

Lemma nthN_spec {A} (l : list A) i : nthN l i = nth_error l (N.to_nat i).
Proof.
  unfold nthN, lenN. destruct (N.ltb_spec i (N.of_nat (length l))) as [H|H]; [reflexivity|].
  symmetry. apply nth_error_None. lia.
Qed.

Fixpoint sumN (l : list N) : N :=
  match l with
  | [] => 0
  | x :: r => x + sumN r
  end.

Lemma nthN_Some {A} (l : list A) i : i < lenN l -> exists a, nthN l i = Some a.
Proof.
  rewrite nthN_spec. unfold lenN. intro H.
  destruct (nth_error l (N.to_nat i)) eqn:E; eauto.
  apply nth_error_None in E. lia.
Qed.

Lemma nthN_lt {A} (l : list A) i a : nthN l i = Some a -> i < lenN l.
Proof.
  rewrite nthN_spec. unfold lenN. intro H.
  assert (N.to_nat i < length l)%nat by (apply nth_error_Some; congruence). lia.
Qed.

Lemma nthN_app_l {A} (l r : list A) i : i < lenN l -> nthN (l ++ r) i = nthN l i.
Proof. rewrite !nthN_spec. unfold lenN. intro. apply nth_error_app1. lia. Qed.

Lemma nthN_app_here {A} (l r : list A) a : nthN (l ++ a :: r) (lenN l) = Some a.
Proof.
  rewrite nthN_spec. unfold lenN. rewrite Nat2N.id.
  rewrite nth_error_app2 by lia. now rewrite Nat.sub_diag.
Qed.

Lemma lenN_app {A} (l r : list A) : lenN (l ++ r) = lenN l + lenN r.
Proof. unfold lenN. rewrite app_length. lia. Qed.

Lemma lenN_cons {A} (a : A) l : lenN (a :: l) = 1 + lenN l.
Proof. unfold lenN. cbn [length]. lia. Qed.

Lemma lenN_nil {A} : lenN (@nil A) = 0.
Proof. reflexivity. Qed.

(* map over a list with a partial function; None if any element fails *)
Fixpoint mapM {A B} (f : A -> option B) (l : list A) : option (list B) :=
  match l with
  | [] => Some []
  | a :: r =>
      match f a with
      | None => None
      | Some b => match mapM f r with None => None | Some bs => Some (b :: bs) end
      end
  end.

Lemma mapM_length {A B} (f : A -> option B) l bs :
  mapM f l = Some bs -> length bs = length l.
Proof.
  revert bs. induction l as [|a r IH]; cbn [mapM]; intros bs H.
  - now inversion H.
  - destruct (f a); [|discriminate]. destruct (mapM f r) eqn:E; [|discriminate].
    inversion H; subst. cbn [length]. f_equal. now apply IH.
Qed.

Lemma mapM_all {A B} (f : A -> option B) l :
  (forall a, In a l -> exists b, f a = Some b) -> exists bs, mapM f l = Some bs.
Proof.
  induction l as [|a r IH]; cbn [mapM]; intro H; [eauto|].
  destruct (H a (or_introl eq_refl)) as [b ->].
  destruct IH as [bs ->]; [intros; apply H; now right|]. eauto.
Qed.

Fixpoint mapM_res {A B} (f : A -> res B) (l : list A) : res (list B) :=
  match l with
  | [] => Ok []
  | a :: r => let* b := f a in let* bs := mapM_res f r in Ok (b :: bs)
  end.

(* linear-time list reversal for the extracted code ([List.rev] is quadratic) *)
Definition frev {A} (l : list A) : list A := rev_append l [].
Lemma frev_rev {A} (l : list A) : frev l = rev l.
Proof. unfold frev. symmetry. apply rev_alt. Qed.
