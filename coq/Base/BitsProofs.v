(* Lemmas about the readings of bit vectors (Base/Bits.v). *)
From GV Require Import Base.Util Base.Bits.

Lemma pow2_pos n : 0 < 2 ^ n.
Proof. apply N.neq_0_lt_0. apply N.pow_nonzero. lia. Qed.

Lemma pow2_succ n : 2 ^ (1 + n) = 2 * 2 ^ n.
Proof. rewrite N.pow_add_r, N.pow_1_r. reflexivity. Qed.

Lemma lenN_length {A} (x y : list A) : length x = length y -> lenN x = lenN y.
Proof. unfold lenN. intros ->. reflexivity. Qed.

Lemma lenN_rev {A} (l : list A) : lenN (rev l) = lenN l.
Proof. unfold lenN. now rewrite rev_length. Qed.

Lemma b2n_le1 b : N.b2n b <= 1.
Proof. destruct b; cbn; lia. Qed.

Lemma bits_to_N_cons b r : bits_to_N (b :: r) = N.b2n b * 2 ^ lenN r + bits_to_N r.
Proof. reflexivity. Qed.

Lemma bits_to_N_lt l : bits_to_N l < 2 ^ lenN l.
Proof.
  induction l as [|b r IH].
  - cbn. lia.
  - rewrite bits_to_N_cons, lenN_cons, pow2_succ.
    pose proof (b2n_le1 b). nia.
Qed.

Lemma bits_to_N_app l r : bits_to_N (l ++ r) = bits_to_N l * 2 ^ lenN r + bits_to_N r.
Proof.
  induction l as [|b l IH].
  - cbn [app bits_to_N]. lia.
  - cbn [app]. rewrite !bits_to_N_cons, IH, lenN_app, N.pow_add_r. lia.
Qed.

Lemma bits_to_N_snoc l b : bits_to_N (l ++ [b]) = 2 * bits_to_N l + N.b2n b.
Proof.
  rewrite bits_to_N_app. cbn [bits_to_N]. rewrite lenN_cons, lenN_nil. cbn. lia.
Qed.

Lemma bits_to_N_rev l : bits_to_N (rev l) = lsb_to_N l.
Proof.
  induction l as [|b l IH]; [reflexivity|].
  cbn [rev lsb_to_N]. rewrite bits_to_N_snoc, IH. lia.
Qed.

Lemma lsb_to_N_rev l : lsb_to_N (rev l) = bits_to_N l.
Proof. rewrite <- bits_to_N_rev, rev_involutive. reflexivity. Qed.

Lemma lsb_to_N_lt l : lsb_to_N l < 2 ^ lenN l.
Proof. rewrite <- bits_to_N_rev, <- lenN_rev. apply bits_to_N_lt. Qed.

Lemma bits_to_N_repeat_false n : bits_to_N (repeat false n) = 0.
Proof. induction n as [|n IH]; [reflexivity|]. cbn [repeat]. rewrite bits_to_N_cons, IH. cbn. lia. Qed.

Lemma lenN_repeat {A} (a : A) n : lenN (repeat a n) = N.of_nat n.
Proof. unfold lenN. now rewrite repeat_length. Qed.

(* the first bit and the rest, arithmetically *)
Lemma bits_to_N_hd b r : N.b2n b = bits_to_N (b :: r) / 2 ^ lenN r.
Proof.
  rewrite bits_to_N_cons. pose proof (bits_to_N_lt r) as Hr. pose proof (pow2_pos (lenN r)) as Hp.
  rewrite N.div_add_l by lia. rewrite (N.div_small _ _ Hr).
  rewrite N.add_0_r. reflexivity.
Qed.

Lemma bits_to_N_tl b r : bits_to_N r = bits_to_N (b :: r) mod 2 ^ lenN r.
Proof.
  rewrite bits_to_N_cons. pose proof (bits_to_N_lt r) as Hr. pose proof (pow2_pos (lenN r)) as Hp.
  rewrite N.add_comm, N.mod_add by lia. rewrite (N.mod_small _ _ Hr). reflexivity.
Qed.

Lemma bits_to_N_inj x y : length x = length y -> bits_to_N x = bits_to_N y -> x = y.
Proof.
  revert y. induction x as [|a x IH]; intros [|c y] Hl He; try discriminate; [reflexivity|].
  injection Hl as Hl. rewrite !bits_to_N_cons in He.
  rewrite (lenN_length _ _ Hl) in He.
  pose proof (bits_to_N_lt x) as Hx. pose proof (bits_to_N_lt y) as Hy.
  rewrite (lenN_length _ _ Hl) in Hx.
  assert (a = c) as -> by (destruct a, c; cbn in He; try reflexivity; lia).
  f_equal. apply IH; [exact Hl | lia].
Qed.

(* two's complement reading *)
Lemma bits_to_Z_signed_cons b r :
  bits_to_Z_signed (b :: r) = (Z.of_N (bits_to_N (b :: r)) - (if b then 2 ^ Z.of_N (lenN (b :: r)) else 0))%Z.
Proof.
  unfold bits_to_Z_signed. rewrite bits_to_N_cons, lenN_cons.
  assert (2 ^ Z.of_N (1 + lenN r) = 2 * Z.of_N (2 ^ lenN r))%Z as Hp.
  { rewrite N2Z.inj_add, Z.pow_add_r by lia. rewrite N2Z.inj_pow. reflexivity. }
  destruct b; cbn [N.b2n]; rewrite ?N.mul_1_l, ?N.mul_0_l, ?N.add_0_l; lia.
Qed.

Lemma bits_to_Z_signed_range l : l <> [] ->
  (- 2 ^ Z.of_N (lenN l - 1) <= bits_to_Z_signed l < 2 ^ Z.of_N (lenN l - 1))%Z.
Proof.
  destruct l as [|b r]; [congruence|intros _].
  unfold bits_to_Z_signed. rewrite lenN_cons. replace (1 + lenN r - 1) with (lenN r) by lia.
  pose proof (bits_to_N_lt r) as Hr.
  assert (Z.of_N (bits_to_N r) < 2 ^ Z.of_N (lenN r))%Z as Hz.
  { rewrite <- (N2Z.inj_pow 2). lia. }
  destruct b; cbn [N.b2n]; rewrite ?N.mul_1_l, ?N.mul_0_l, ?N2Z.inj_pow; cbn; lia.
Qed.

Lemma bits_to_Z_signed_nonneg l : hd false l = false -> bits_to_Z_signed l = Z.of_N (bits_to_N l).
Proof.
  destruct l as [|b r]; [reflexivity|]. cbn [hd]. intros ->.
  unfold bits_to_Z_signed. rewrite bits_to_N_cons. cbn. lia.
Qed.
