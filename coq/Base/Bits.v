(* L0 bits: bit vectors as [list bool], most significant bit first (as in circuit.rs /
   compile.rs), and their readings as unsigned ([N]) and two's-complement ([Z]) numbers. *)
From GV Require Import Base.Util.

(* least significant bit first *)
Fixpoint lsb_to_N (l : list bool) : N :=
  match l with
  | [] => 0
  | b :: r => N.b2n b + 2 * lsb_to_N r
  end.

(* most significant bit first: the reading used by the compiler (wires_as_unsigned) *)
Fixpoint bits_to_N (l : list bool) : N :=
  match l with
  | [] => 0
  | b :: r => N.b2n b * 2 ^ lenN r + bits_to_N r
  end.

(* two's complement: the first bit has weight -2^(n-1) *)
Definition bits_to_Z_signed (l : list bool) : Z :=
  match l with
  | [] => 0%Z
  | b :: r => (Z.of_N (bits_to_N r) - Z.of_N (N.b2n b * 2 ^ lenN r))%Z
  end.

(* the n low bits of v, most significant first (unsigned_to_bits / signed_to_bits) *)
Fixpoint N_to_bits (n : nat) (v : N) : list bool :=
  match n with
  | O => []
  | S k => N.testbit v (N.of_nat k) :: N_to_bits k v
  end.
