(* Finite maps with N keys on top of PositiveMap (efficient after extraction). *)
From Coq Require Import FMapPositive.
From GV Require Import Base.Util.

Definition nmap (A : Type) := PositiveMap.t A.
Definition nempty {A} : nmap A := PositiveMap.empty A.
Definition nfind {A} (k : N) (m : nmap A) : option A := PositiveMap.find (N.succ_pos k) m.
Definition nadd {A} (k : N) (v : A) (m : nmap A) : nmap A := PositiveMap.add (N.succ_pos k) v m.
Definition nremove {A} (k : N) (m : nmap A) : nmap A := PositiveMap.remove (N.succ_pos k) m.

Lemma succ_pos_inj a b : N.succ_pos a = N.succ_pos b -> a = b.
Proof.
  intro H. apply N.succ_inj. rewrite <- !N.succ_pos_spec. now rewrite H.
Qed.

Lemma nfind_empty {A} k : nfind k (@nempty A) = None.
Proof. unfold nfind, nempty. apply PositiveMap.gempty. Qed.

Lemma nfind_add_eq {A} k (v : A) m : nfind k (nadd k v m) = Some v.
Proof. unfold nfind, nadd. apply PositiveMap.gss. Qed.

Lemma nfind_add_neq {A} k k' (v : A) m : k <> k' -> nfind k' (nadd k v m) = nfind k' m.
Proof.
  unfold nfind, nadd. intro H. apply PositiveMap.gso.
  intro E. apply H. symmetry. now apply succ_pos_inj.
Qed.

Lemma nfind_add {A} k k' (v : A) m :
  nfind k' (nadd k v m) = if k =? k' then Some v else nfind k' m.
Proof.
  destruct (N.eqb_spec k k') as [->|H]; [apply nfind_add_eq|now apply nfind_add_neq].
Qed.

Lemma nfind_remove_eq {A} k (m : nmap A) : nfind k (nremove k m) = None.
Proof. unfold nfind, nremove. apply PositiveMap.grs. Qed.

Lemma nfind_remove_neq {A} k k' (m : nmap A) : k <> k' -> nfind k' (nremove k m) = nfind k' m.
Proof.
  unfold nfind, nremove. intro H. apply PositiveMap.gro.
  intro E. apply H. symmetry. now apply succ_pos_inj.
Qed.

Lemma nfind_remove {A} k k' (m : nmap A) :
  nfind k' (nremove k m) = if k =? k' then None else nfind k' m.
Proof.
  destruct (N.eqb_spec k k') as [->|H]; [apply nfind_remove_eq|now apply nfind_remove_neq].
Qed.
