(* C13 — the finite checks behind the bounded network theorems, evaluated once by the
   kernel's vm_compute (about 1 minute).  Each says: the recursive network of Sort.v, run on
   0/1 keys, sorts every 0/1 input of the stated shape and length. *)
From GV Require Import Base.Util Sort.Sort.

(* every 1^a 0^b 1^c (down-then-up), every length 0..64 *)
Lemma check_down_up_64 : forallb (check_merger_blocks true) (seq 0 65) = true.
Proof. vm_compute. reflexivity. Qed.

(* every 0^a 1^b 0^c (up-then-down), lengths 1, 2, 4, ..., 256 *)
Lemma check_up_down_pow2_256 : forallb (check_merger_blocks false) (map (Nat.pow 2) (seq 0 9)) = true.
Proof. vm_compute. reflexivity. Qed.

(* every 0/1 vector, every length 0..16 *)
Lemma check_sorter_16 : forallb check_sorter_all (seq 0 17) = true.
Proof. vm_compute. reflexivity. Qed.

(* the arbitrary-length merger does NOT sort up-then-down inputs of a length that is not a
   power of two (the compiler only uses it that way on padded, power-of-two vectors) *)
Lemma check_up_down_3_fails : check_merger_blocks false 3 = false.
Proof. vm_compute. reflexivity. Qed.
