(* C13 -- the merger and sorter CIRCUITS sort, for all lengths: the wire-level theorems of
   SortHoare.v / Props/C13.v without their length bounds (k <= 8, <= 64, <= 16), from
   SortUnbounded.v.  The remaining hypotheses are not length bounds of the sorting argument:
   [elems_ok b L v] (all elements are valid wires of one width L) and [bits <= L] (the key
   fits) are what the gadgets need to be defined at all. *)
From Coq Require Import Permutation.
From GV Require Import Base.Util Base.NMap Builder.Builder Builder.BuilderSem Builder.BuilderSpec
  Builder.BuilderProofs Gadgets.Gadgets Sort.Sort Sort.SortProofs Sort.ZeroOne Sort.SortHoare Sort.SortUnbounded.

Section S.
  Variable inv : builder -> Prop.
  Hypothesis ops : builder_ops_sound inv.

  Lemma push_bitonic_sorter_sorts_all bits L b v :
    inv b -> elems_ok b L v -> (bits <= L)%nat ->
    exists v' b', push_bitonic_sorter b bits v = Ok (v', b') /\ inv b' /\ ext b b' /\
      elems_ok b' L v' /\ length v' = length v /\
      forall inp, ins_ok b inp ->
        sortedN (map (key bits) (densl inp b' v')) = true /\
        Permutation (densl inp b' v') (densl inp b v).
  Proof.
    intros Hinv Hv Hb.
    destruct (push_bitonic_sorter_sound inv ops bits L b v Hinv Hv Hb) as (v' & b' & E & I' & X' & Hv' & Lv' & D).
    exists v', b'. splits; auto. intros inp Hi. rewrite (D inp Hi). apply sorter_elems.
  Qed.

  Lemma push_bitonic_merger_sorts_up_down_all bits L b v k :
    inv b -> elems_ok b L v -> (bits <= L)%nat -> length v = (2 ^ k)%nat ->
    exists v' b', push_bitonic_merger (S (length v)) b bits true v = Ok (v', b') /\ inv b' /\ ext b b' /\
      elems_ok b' L v' /\ length v' = length v /\
      forall inp, ins_ok b inp -> up_then_down (map (key bits) (densl inp b v)) ->
        sortedN (map (key bits) (densl inp b' v')) = true /\
        Permutation (densl inp b' v') (densl inp b v).
  Proof.
    intros Hinv Hv Hb Hn.
    destruct (push_bitonic_merger_top_sound inv ops bits L true b v Hinv Hv Hb) as (v' & b' & E & I' & X' & Hv' & Lv' & D).
    exists v', b'. splits; auto. intros inp Hi Hs. rewrite (D inp Hi).
    apply (merger_elems_up_down bits _ k); auto. now rewrite densl_length.
  Qed.

  Lemma push_bitonic_merger_sorts_down_up_all bits L b v :
    inv b -> elems_ok b L v -> (bits <= L)%nat ->
    exists v' b', push_bitonic_merger (S (length v)) b bits true v = Ok (v', b') /\ inv b' /\ ext b b' /\
      elems_ok b' L v' /\ length v' = length v /\
      forall inp, ins_ok b inp -> down_then_up (map (key bits) (densl inp b v)) ->
        sortedN (map (key bits) (densl inp b' v')) = true /\
        Permutation (densl inp b' v') (densl inp b v).
  Proof.
    intros Hinv Hv Hb.
    destruct (push_bitonic_merger_top_sound inv ops bits L true b v Hinv Hv Hb) as (v' & b' & E & I' & X' & Hv' & Lv' & D).
    exists v', b'. splits; auto. intros inp Hi Hs. rewrite (D inp Hi).
    apply merger_elems_down_up; auto.
  Qed.
End S.

(* ---- the statements in the style of Props/C13.v ---- *)

Theorem C13_merger_sorts_up_down : forall bits (v : list elem) k,
  length v = (2 ^ k)%nat -> up_then_down (map (key bits) v) ->
  sortedN (map (key bits) (bitonic_merger (gt_key bits) true v)) = true /\
  Permutation (bitonic_merger (gt_key bits) true v) v.
Proof. exact merger_elems_up_down. Qed.
Print Assumptions C13_merger_sorts_up_down.

Theorem C13_merger_sorts_down_up : forall bits (v : list elem),
  down_then_up (map (key bits) v) ->
  sortedN (map (key bits) (bitonic_merger (gt_key bits) true v)) = true /\
  Permutation (bitonic_merger (gt_key bits) true v) v.
Proof. exact merger_elems_down_up. Qed.
Print Assumptions C13_merger_sorts_down_up.

Theorem C13_sorter_sorts : forall bits (v : list elem),
  sortedN (map (key bits) (bitonic_sorter (gt_key bits) v)) = true /\
  Permutation (bitonic_sorter (gt_key bits) v) v.
Proof. exact sorter_elems. Qed.
Print Assumptions C13_sorter_sorts.

Theorem C13_push_bitonic_merger_sorts_all : forall inv, builder_ops_sound inv -> forall bits L b v k,
  inv b -> elems_ok b L v -> (bits <= L)%nat -> length v = (2 ^ k)%nat ->
  exists v' b', push_bitonic_merger (S (length v)) b bits true v = Ok (v', b') /\ inv b' /\ ext b b' /\
    elems_ok b' L v' /\ length v' = length v /\
    forall inp, ins_ok b inp -> up_then_down (map (key bits) (densl inp b v)) ->
      sortedN (map (key bits) (densl inp b' v')) = true /\
      Permutation (densl inp b' v') (densl inp b v).
Proof. exact push_bitonic_merger_sorts_up_down_all. Qed.
Print Assumptions C13_push_bitonic_merger_sorts_all.

Theorem C13_push_bitonic_sorter_sorts_all : forall inv, builder_ops_sound inv -> forall bits L b v,
  inv b -> elems_ok b L v -> (bits <= L)%nat ->
  exists v' b', push_bitonic_sorter b bits v = Ok (v', b') /\ inv b' /\ ext b b' /\
    elems_ok b' L v' /\ length v' = length v /\
    forall inp, ins_ok b inp ->
      sortedN (map (key bits) (densl inp b' v')) = true /\
      Permutation (densl inp b' v') (densl inp b v).
Proof. exact push_bitonic_sorter_sorts_all. Qed.
Print Assumptions C13_push_bitonic_sorter_sorts_all.

(* for the concrete builder invariant *)
Theorem C13_merger_circuit_sorts_all : forall bits L b v k,
  inv b -> elems_ok b L v -> (bits <= L)%nat -> length v = (2 ^ k)%nat ->
  exists v' b', push_bitonic_merger (S (length v)) b bits true v = Ok (v', b') /\ inv b' /\ ext b b' /\
    elems_ok b' L v' /\ length v' = length v /\
    forall inp, ins_ok b inp -> up_then_down (map (key bits) (densl inp b v)) ->
      sortedN (map (key bits) (densl inp b' v')) = true /\
      Permutation (densl inp b' v') (densl inp b v).
Proof. exact (push_bitonic_merger_sorts_up_down_all inv builder_sound). Qed.
Print Assumptions C13_merger_circuit_sorts_all.

Theorem C13_merger_circuit_sorts_down_up_all : forall bits L b v,
  inv b -> elems_ok b L v -> (bits <= L)%nat ->
  exists v' b', push_bitonic_merger (S (length v)) b bits true v = Ok (v', b') /\ inv b' /\ ext b b' /\
    elems_ok b' L v' /\ length v' = length v /\
    forall inp, ins_ok b inp -> down_then_up (map (key bits) (densl inp b v)) ->
      sortedN (map (key bits) (densl inp b' v')) = true /\
      Permutation (densl inp b' v') (densl inp b v).
Proof. exact (push_bitonic_merger_sorts_down_up_all inv builder_sound). Qed.
Print Assumptions C13_merger_circuit_sorts_down_up_all.

Theorem C13_sorter_circuit_sorts_all : forall bits L b v,
  inv b -> elems_ok b L v -> (bits <= L)%nat ->
  exists v' b', push_bitonic_sorter b bits v = Ok (v', b') /\ inv b' /\ ext b b' /\
    elems_ok b' L v' /\ length v' = length v /\
    forall inp, ins_ok b inp ->
      sortedN (map (key bits) (densl inp b' v')) = true /\
      Permutation (densl inp b' v') (densl inp b v).
Proof. exact (push_bitonic_sorter_sorts_all inv builder_sound). Qed.
Print Assumptions C13_sorter_circuit_sorts_all.
