(* C13 — Hoare lifts: the builder-form gadgets push_gt_circuit / push_condswap / push_sorter /
   push_bitonic_merger / push_bitonic_sorter of Gadgets.v denote the pure specification of
   Sort.v.  Everything is proved from the specification interface of the builder operations
   ([builder_ops_sound inv], BuilderSpec.v) only. *)
From Coq Require Import Permutation.
From GV Require Import Base.Util Base.NMap Builder.Builder Builder.BuilderSem Builder.BuilderSpec
  Gadgets.Gadgets Sort.Sort Sort.SortProofs Sort.ZeroOne.

Lemma combine_map2 {X Y} (f : X -> Y) (x : list X) : forall y,
  map (fun p => (f (fst p), f (snd p))) (combine x y) = combine (map f x) (map f y).
Proof. induction x as [|a x IH]; intros [|c y]; cbn [combine map fst snd]; try reflexivity. now rewrite IH. Qed.

Lemma Forall_combine {X} (P : X -> Prop) (x : list X) : forall y, Forall P x -> Forall P y ->
  Forall (fun p => P (fst p) /\ P (snd p)) (combine x y).
Proof.
  induction x as [|a x IH]; intros [|c y] Hx Hy; cbn [combine]; try constructor.
  - inversion Hx; inversion Hy; subst. now split.
  - inversion Hx; inversion Hy; subst. now apply IH.
Qed.

Lemma Forall_firstn {X} (P : X -> Prop) n : forall (l : list X), Forall P l -> Forall P (firstn n l).
Proof.
  induction n as [|n IH]; intros [|a l] H; cbn [firstn]; try constructor.
  - now inversion H.
  - apply IH. now inversion H.
Qed.
Lemma Forall_skipn {X} (P : X -> Prop) n : forall (l : list X), Forall P l -> Forall P (skipn n l).
Proof.
  induction n as [|n IH]; intros [|a l] H; cbn [skipn]; try assumption.
  apply IH. now inversion H.
Qed.

Ltac splits := lazymatch goal with |- _ /\ _ => split; [|splits] | _ => idtac end.

Section S.
  Variable inv : builder -> Prop.
  Hypothesis ops : builder_ops_sound inv.

  Definition pvalid (b : builder) (p : W * W) : Prop := valid b (fst p) /\ valid b (snd p).
  Definition pden (inp : list bool) (b : builder) (p : W * W) : bool * bool :=
    (den inp b (fst p), den inp b (snd p)).

  Lemma ext_pvalids b b' l : ext b b' -> Forall (pvalid b) l -> Forall (pvalid b') l.
  Proof. intros X. apply Forall_impl. intros p [H1 H2]. split; eapply ext_valid; eauto. Qed.

  Lemma ext_pdens b b' inp l : ext b b' -> ins_ok b inp -> Forall (pvalid b) l ->
    map (pden inp b') l = map (pden inp b) l.
  Proof.
    intros X Hi H. apply map_ext_in. intros p Hp. rewrite Forall_forall in H. destruct (H p Hp).
    unfold pden. f_equal; now apply (ext_den b b').
  Qed.

  (* ---- push_gt_circuit ---- *)

  Lemma gt_loop_sound xys : forall b carry, inv b -> Forall (pvalid b) xys -> valid b carry ->
    exists r b', gt_loop b xys carry = Ok (r, b') /\ inv b' /\ ext b b' /\ valid b' r /\
      forall inp, ins_ok b inp ->
        den inp b' r = fold_left gt_step (map (pden inp b) xys) (den inp b carry).
  Proof.
    induction xys as [|[x y] xys IH]; intros b carry Hinv Hv Hc.
    - exists carry, b. splits; auto using ext_refl; try (intros; reflexivity).
    - inversion Hv as [|? ? [Hx Hy] Hr]; subst. cbn [fst snd] in Hx, Hy. cbn [gt_loop].
      destruct (bs_xor inv ops b x carry Hinv Hx Hc) as (xc & b1 & E1 & I1 & X1 & V1 & D1).
      rewrite E1. cbn [bind].
      destruct (bs_xor inv ops b1 y carry I1 (ext_valid _ _ _ X1 Hy) (ext_valid _ _ _ X1 Hc))
        as (yc & b2 & E2 & I2 & X2 & V2 & D2).
      rewrite E2. cbn [bind].
      destruct (bs_not inv ops b2 yc I2 V2) as (nyc & b3 & E3 & I3 & X3 & V3 & D3).
      rewrite E3. cbn [bind].
      pose proof (ext_trans _ _ _ X2 X3) as X23.
      destruct (bs_and inv ops b3 xc nyc I3 (ext_valid _ _ _ X23 V1) V3)
        as (an & b4 & E4 & I4 & X4 & V4 & D4).
      rewrite E4. cbn [bind].
      pose proof (ext_trans _ _ _ X1 (ext_trans _ _ _ X23 X4)) as X14.
      destruct (bs_xor inv ops b4 an carry I4 V4 (ext_valid _ _ _ X14 Hc))
        as (c & b5 & E5 & I5 & X5 & V5 & D5).
      rewrite E5. cbn [bind].
      pose proof (ext_trans _ _ _ X14 X5) as X15.
      destruct (IH b5 c I5 (ext_pvalids _ _ _ X15 Hr) V5) as (r & b' & E & I' & X' & V' & D').
      exists r, b'. splits; auto.
      + eapply ext_trans; eauto.
      + intros inp Hi.
        pose proof (ext_ins_ok _ _ _ X1 Hi) as Hi1.
        pose proof (ext_ins_ok _ _ _ X2 Hi1) as Hi2.
        pose proof (ext_ins_ok _ _ _ X3 Hi2) as Hi3.
        pose proof (ext_ins_ok _ _ _ X4 Hi3) as Hi4.
        pose proof (ext_ins_ok _ _ _ X5 Hi4) as Hi5.
        rewrite (D' inp Hi5), (ext_pdens _ _ _ _ X15 Hi Hr). cbn [map fold_left]. f_equal.
        rewrite (D5 inp Hi4), (D4 inp Hi3), (D3 inp Hi2), (D2 inp Hi1).
        rewrite (ext_den _ _ _ _ X14 Hi Hc).
        rewrite (ext_den _ _ _ _ X23 Hi1 V1), (D1 inp Hi).
        rewrite (ext_den _ _ _ _ X1 Hi Hy), (ext_den _ _ _ _ X1 Hi Hc).
        reflexivity.
  Qed.

  Lemma push_gt_circuit_sound b bits x y :
    inv b -> valids b x -> valids b y -> (bits <= length x)%nat -> (bits <= length y)%nat ->
    exists g b', push_gt_circuit b bits x y = Ok (g, b') /\ inv b' /\ ext b b' /\ valid b' g /\
      forall inp, ins_ok b inp -> den inp b' g = gt bits (dens inp b x) (dens inp b y).
  Proof.
    intros Hinv Hx Hy Lx Ly. unfold push_gt_circuit. unfold W.
    assert (Hc : ((length x <? bits) || (length y <? bits))%nat = false)
      by (apply orb_false_intro; apply Nat.ltb_ge; lia).
    rewrite Hc.
    destruct (gt_loop_sound (rev (combine (firstn bits x) (firstn bits y))) b 0 Hinv) as (g & b' & E & I' & X' & V' & D').
    - apply Forall_rev. apply (Forall_combine (valid b)); now apply Forall_firstn.
    - apply (bs_consts_valid inv ops b Hinv).
    - exists g, b'. splits; auto. intros inp Hi. rewrite (D' inp Hi), (bs_const0 inv ops b inp Hinv Hi).
      unfold gt, gt_chain, dens. rewrite map_rev. unfold pden. rewrite combine_map2, <- !firstn_map. reflexivity.
  Qed.

  Lemma push_gt_circuit_key_sound b bits x y :
    inv b -> valids b x -> valids b y -> (bits <= length x)%nat -> (bits <= length y)%nat ->
    exists g b', push_gt_circuit b bits x y = Ok (g, b') /\ inv b' /\ ext b b' /\ valid b' g /\
      forall inp, ins_ok b inp ->
        den inp b' g = (key bits (dens inp b y) <? key bits (dens inp b x)).
  Proof.
    intros Hi Hx Hy Lx Ly.
    destruct (push_gt_circuit_sound b bits x y Hi Hx Hy Lx Ly) as (g & b' & E & I' & X & V & D).
    exists g, b'. splits; auto. intros inp Hin. rewrite (D inp Hin).
    apply gt_correct; unfold dens; now rewrite map_length.
  Qed.

  (* ---- push_condswap / condswap_all ---- *)

  Lemma push_condswap_sound b s x y : inv b -> valid b s -> valid b x -> valid b y ->
    exists a c b', push_condswap b s x y = Ok ((a, c), b') /\ inv b' /\ ext b b' /\ valid b' a /\ valid b' c /\
      forall inp, ins_ok b inp ->
        (den inp b' a, den inp b' c) = condswap (den inp b s) (den inp b x) (den inp b y).
  Proof.
    intros Hinv Hs Hx Hy. unfold push_condswap. destruct (N.eqb_spec x y) as [->|Hne].
    - exists y, y, b. splits; auto using ext_refl. intros inp _. rewrite condswap_spec. now destruct (den inp b s).
    - destruct (bs_xor inv ops b x y Hinv Hx Hy) as (xy & b1 & E1 & I1 & X1 & V1 & D1).
      rewrite E1. cbn [bind].
      destruct (bs_and inv ops b1 xy s I1 V1 (ext_valid _ _ _ X1 Hs)) as (sw & b2 & E2 & I2 & X2 & V2 & D2).
      rewrite E2. cbn [bind].
      pose proof (ext_trans _ _ _ X1 X2) as X12.
      destruct (bs_xor inv ops b2 x sw I2 (ext_valid _ _ _ X12 Hx) V2) as (xs & b3 & E3 & I3 & X3 & V3 & D3).
      rewrite E3. cbn [bind].
      pose proof (ext_trans _ _ _ X12 X3) as X13.
      destruct (bs_xor inv ops b3 y sw I3 (ext_valid _ _ _ X13 Hy) (ext_valid _ _ _ X3 V2)) as (ys & b4 & E4 & I4 & X4 & V4 & D4).
      rewrite E4. cbn [bind].
      exists xs, ys, b4. splits; auto.
      + eapply ext_trans; eauto.
      + eapply ext_valid; eauto.
      + intros inp Hi.
        pose proof (ext_ins_ok _ _ _ X1 Hi) as Hi1.
        pose proof (ext_ins_ok _ _ _ X2 Hi1) as Hi2.
        pose proof (ext_ins_ok _ _ _ X3 Hi2) as Hi3.
        rewrite (ext_den _ _ _ _ X4 Hi3 V3), (D4 inp Hi3), (D3 inp Hi2).
        rewrite (ext_den _ _ _ _ X3 Hi2 V2), (D2 inp Hi1), (D1 inp Hi).
        rewrite (ext_den _ _ _ _ X13 Hi Hy), (ext_den _ _ _ _ X12 Hi Hx), (ext_den _ _ _ _ X1 Hi Hs).
        reflexivity.
  Qed.

  Lemma condswap_all_sound xys : forall b s, inv b -> valid b s -> Forall (pvalid b) xys ->
    exists mn mx b', condswap_all b s xys = Ok ((mn, mx), b') /\ inv b' /\ ext b b' /\
      valids b' mn /\ valids b' mx /\ length mn = length xys /\ length mx = length xys /\
      forall inp, ins_ok b inp ->
        dens inp b' mn = map (fun p => fst (condswap (den inp b s) (fst p) (snd p))) (map (pden inp b) xys) /\
        dens inp b' mx = map (fun p => snd (condswap (den inp b s) (fst p) (snd p))) (map (pden inp b) xys).
  Proof.
    induction xys as [|[x y] xys IH]; intros b s Hinv Hs Hv.
    - exists [], [], b. cbn. splits; auto using ext_refl; constructor.
    - inversion Hv as [|? ? [Hx Hy] Hr]; subst. cbn [fst snd] in Hx, Hy. cbn [condswap_all].
      destruct (push_condswap_sound b s x y Hinv Hs Hx Hy) as (a & c & b1 & E1 & I1 & X1 & Va & Vc & D1).
      rewrite E1. cbn [bind].
      destruct (IH b1 s I1 (ext_valid _ _ _ X1 Hs) (ext_pvalids _ _ _ X1 Hr))
        as (mn & mx & b2 & E2 & I2 & X2 & Vmn & Vmx & Lmn & Lmx & D2).
      rewrite E2. cbn [bind].
      exists (a :: mn), (c :: mx), b2. splits; auto.
      + eapply ext_trans; eauto.
      + constructor; [eapply ext_valid; eauto|exact Vmn].
      + constructor; [eapply ext_valid; eauto|exact Vmx].
      + cbn [length]. now rewrite Lmn.
      + cbn [length]. now rewrite Lmx.
      + intros inp Hi. pose proof (ext_ins_ok _ _ _ X1 Hi) as Hi1. destruct (D2 inp Hi1) as [D2a D2c].
        specialize (D1 inp Hi). unfold dens in *. cbn [map].
        rewrite D2a, D2c, (ext_den _ _ _ _ X2 Hi1 Va), (ext_den _ _ _ _ X2 Hi1 Vc).
        rewrite (ext_pdens _ _ _ _ X1 Hi Hr), (ext_den _ _ _ _ X1 Hi Hs).
        unfold pden. cbn [fst snd]. rewrite <- D1. cbn [fst snd]. split; reflexivity.
  Qed.

  (* ---- push_sorter ---- *)

  Lemma push_sorter_sound b bits x y :
    inv b -> valids b x -> valids b y -> (bits <= length x)%nat -> (bits <= length y)%nat ->
    exists mn mx b', push_sorter b bits x y = Ok ((mn, mx), b') /\ inv b' /\ ext b b' /\
      valids b' mn /\ valids b' mx /\
      length mn = Nat.min (length x) (length y) /\ length mx = Nat.min (length x) (length y) /\
      forall inp, ins_ok b inp ->
        (dens inp b' mn, dens inp b' mx) = sorter_bits bits (dens inp b x) (dens inp b y).
  Proof.
    intros Hinv Hx Hy Lx Ly. unfold push_sorter. unfold W.
    destruct (push_gt_circuit_sound b bits x y Hinv Hx Hy Lx Ly) as (g & b1 & E1 & I1 & X1 & Vg & D1).
    rewrite E1. cbn [bind].
    assert (Hp : Forall (pvalid b) (combine x y)) by (now apply (Forall_combine (valid b))).
    destruct (condswap_all_sound (combine x y) b1 g I1 Vg (ext_pvalids _ _ _ X1 Hp))
      as (mn & mx & b2 & E2 & I2 & X2 & Vmn & Vmx & Lmn & Lmx & D2).
    rewrite E2. exists mn, mx, b2. rewrite combine_length in Lmn, Lmx. splits; auto.
    - eapply ext_trans; eauto.
    - intros inp Hi. pose proof (ext_ins_ok _ _ _ X1 Hi) as Hi1.
      destruct (D2 inp Hi1) as [Da Dc]. rewrite Da, Dc, (D1 inp Hi), (ext_pdens _ _ _ _ X1 Hi Hp).
      unfold sorter_bits, condswap_list, dens. unfold pden. rewrite combine_map2, !map_map. reflexivity.
  Qed.

  (* elements of one common length L >= bits: the whole element moves, by key *)
  Definition elems_ok (b : builder) (L : nat) (v : list (list W)) : Prop :=
    Forall (fun x => valids b x /\ length x = L) v.

  Definition densl (inp : list bool) (b : builder) (v : list (list W)) : list elem := map (dens inp b) v.

  Lemma ext_elems_ok b b' L v : ext b b' -> elems_ok b L v -> elems_ok b' L v.
  Proof. intro X. apply Forall_impl. intros x [H1 H2]. split; [eapply ext_valids; eauto|exact H2]. Qed.

  Lemma ext_densl b b' L inp v : ext b b' -> ins_ok b inp -> elems_ok b L v -> densl inp b' v = densl inp b v.
  Proof.
    intros X Hi H. apply map_ext_in. intros x Hx. unfold elems_ok in H. rewrite Forall_forall in H.
    destruct (H x Hx). now apply (ext_dens b b').
  Qed.

  Lemma push_sorter_sound_eq b bits L x y :
    inv b -> valids b x -> valids b y -> length x = L -> length y = L -> (bits <= L)%nat ->
    exists mn mx b', push_sorter b bits x y = Ok ((mn, mx), b') /\ inv b' /\ ext b b' /\
      valids b' mn /\ valids b' mx /\ length mn = L /\ length mx = L /\
      forall inp, ins_ok b inp ->
        (dens inp b' mn, dens inp b' mx) = sorter (gt_key bits) (dens inp b x) (dens inp b y).
  Proof.
    intros Hinv Hx Hy Lx Ly Hb.
    destruct (push_sorter_sound b bits x y Hinv Hx Hy ltac:(lia) ltac:(lia))
      as (mn & mx & b' & E & I' & X' & Vmn & Vmx & Lmn & Lmx & D).
    exists mn, mx, b'. splits; auto; try lia.
    intros inp Hi. rewrite (D inp Hi). apply sorter_bits_spec; unfold dens; rewrite !map_length; lia.
  Qed.

  (* ---- merge_pairs ---- *)

  Lemma merge_pairs_sound bits L asc lower : forall b upper,
    inv b -> elems_ok b L lower -> elems_ok b L upper -> (bits <= L)%nat ->
    exists lo up b', Gadgets.merge_pairs b bits asc lower upper = Ok ((lo, up), b') /\ inv b' /\ ext b b' /\
      elems_ok b' L lo /\ elems_ok b' L up /\ length lo = length lower /\ length up = length upper /\
      forall inp, ins_ok b inp ->
        (densl inp b' lo, densl inp b' up) =
        Sort.merge_pairs (gt_key bits) asc (densl inp b lower) (densl inp b upper).
  Proof.
    induction lower as [|x lr IH]; intros b upper Hinv Hl Hu Hb.
    - exists [], upper, b. cbn [Gadgets.merge_pairs]. splits; auto using ext_refl.
    - destruct upper as [|y ur].
      + exists (x :: lr), [], b. cbn [Gadgets.merge_pairs]. splits; auto using ext_refl.
      + inversion Hl as [|? ? [Vx Lx] Hlr]; inversion Hu as [|? ? [Vy Ly] Hur]; subst.
        cbn [Gadgets.merge_pairs].
        destruct (push_sorter_sound_eq b bits (length x) x y Hinv Vx Vy eq_refl Ly Hb)
          as (mn & mx & b1 & E1 & I1 & X1 & Vmn & Vmx & Lmn & Lmx & D1).
        rewrite E1. cbn [bind].
        destruct (IH b1 ur I1 (ext_elems_ok _ _ _ _ X1 Hlr) (ext_elems_ok _ _ _ _ X1 Hur) Hb)
          as (lo & up & b2 & E2 & I2 & X2 & Hlo & Hup & Llo & Lup & D2).
        assert (Emn : elems_ok b2 (length x) [mn]) by (constructor; [split; [eapply ext_valids; eauto|exact Lmn]|constructor]).
        assert (Emx : elems_ok b2 (length x) [mx]) by (constructor; [split; [eapply ext_valids; eauto|exact Lmx]|constructor]).
        inversion Emn as [|? ? Pmn _]; inversion Emx as [|? ? Pmx _]; subst.
        destruct asc; rewrite E2; cbn [bind].
        * exists (mn :: lo), (mx :: up), b2. splits; auto; try (cbn [length]; lia).
          -- eapply ext_trans; eauto.
          -- now constructor.
          -- now constructor.
          -- intros inp Hi. pose proof (ext_ins_ok _ _ _ X1 Hi) as Hi1.
             cbn [densl map Sort.merge_pairs]. unfold cx. rewrite <- (D1 inp Hi).
             fold (densl inp b lr) (densl inp b ur).
             rewrite <- (ext_densl _ _ _ _ _ X1 Hi Hlr), <- (ext_densl _ _ _ _ _ X1 Hi Hur).
             fold (densl inp b2 lo) (densl inp b2 up). rewrite <- (D2 inp Hi1).
             rewrite (ext_dens _ _ _ _ X2 Hi1 Vmn), (ext_dens _ _ _ _ X2 Hi1 Vmx). reflexivity.
        * exists (mx :: lo), (mn :: up), b2. splits; auto; try (cbn [length]; lia).
          -- eapply ext_trans; eauto.
          -- now constructor.
          -- now constructor.
          -- intros inp Hi. pose proof (ext_ins_ok _ _ _ X1 Hi) as Hi1.
             cbn [densl map Sort.merge_pairs]. unfold cx. rewrite <- (D1 inp Hi).
             fold (densl inp b lr) (densl inp b ur).
             rewrite <- (ext_densl _ _ _ _ _ X1 Hi Hlr), <- (ext_densl _ _ _ _ _ X1 Hi Hur).
             fold (densl inp b2 lo) (densl inp b2 up). rewrite <- (D2 inp Hi1).
             rewrite (ext_dens _ _ _ _ X2 Hi1 Vmn), (ext_dens _ _ _ _ X2 Hi1 Vmx). reflexivity.
  Qed.

  (* ---- push_bitonic_merger ---- *)

  Lemma densl_length inp b v : length (densl inp b v) = length v.
  Proof. apply map_length. Qed.

  Lemma densl_app inp b v1 v2 : densl inp b (v1 ++ v2) = densl inp b v1 ++ densl inp b v2.
  Proof. apply map_app. Qed.
  Lemma densl_firstn inp b n v : densl inp b (firstn n v) = firstn n (densl inp b v).
  Proof. symmetry. apply firstn_map. Qed.
  Lemma densl_skipn inp b n v : densl inp b (skipn n v) = skipn n (densl inp b v).
  Proof. symmetry. apply skipn_map. Qed.

  Lemma elems_ok_app b L v1 v2 : elems_ok b L v1 -> elems_ok b L v2 -> elems_ok b L (v1 ++ v2).
  Proof. intros. apply Forall_app. now split. Qed.

  Lemma push_bitonic_merger_sound bits L asc fuel : forall b v,
    inv b -> elems_ok b L v -> (bits <= L)%nat -> (length v < fuel)%nat ->
    exists v' b', push_bitonic_merger fuel b bits asc v = Ok (v', b') /\ inv b' /\ ext b b' /\
      elems_ok b' L v' /\ length v' = length v /\
      forall inp, ins_ok b inp ->
        densl inp b' v' = merger_fuel (gt_key bits) fuel asc (densl inp b v).
  Proof.
    induction fuel as [|f IH]; intros b v Hinv Hv Hb Hf; [lia|].
    cbn [push_bitonic_merger merger_fuel].
    destruct (Nat.leb_spec (length v) 1) as [Hle|Hgt].
    - exists v, b. splits; auto using ext_refl. intros inp Hi. rewrite densl_length.
      destruct (Nat.leb_spec (length v) 1); [reflexivity|lia].
    - destruct (pow2_below_top (length v) ltac:(lia)) as (M1 & M2 & M3).
      set (m := pow2_below (length v) 1 (length v)) in *.
      destruct (merge_pairs_sound bits L asc (firstn m v) b (skipn m v) Hinv
                  (Forall_firstn _ _ _ Hv) (Forall_skipn _ _ _ Hv) Hb)
        as (lo & up & b1 & E1 & I1 & X1 & Hlo & Hup & Llo & Lup & D1).
      rewrite E1. cbn [bind]. rewrite firstn_length in Llo. rewrite skipn_length in Lup.
      destruct (IH b1 lo I1 Hlo Hb ltac:(lia)) as (lo' & b2 & E2 & I2 & X2 & Hlo' & Llo' & D2).
      rewrite E2. cbn [bind].
      destruct (IH b2 up I2 (ext_elems_ok _ _ _ _ X2 Hup) Hb ltac:(lia)) as (up' & b3 & E3 & I3 & X3 & Hup' & Lup' & D3).
      rewrite E3. cbn [bind].
      exists (lo' ++ up'), b3. splits; auto.
      + eapply ext_trans; [exact X1|]. eapply ext_trans; eauto.
      + apply elems_ok_app; [eapply ext_elems_ok; eauto|exact Hup'].
      + rewrite app_length. lia.
      + intros inp Hi. pose proof (ext_ins_ok _ _ _ X1 Hi) as Hi1. pose proof (ext_ins_ok _ _ _ X2 Hi1) as Hi2.
        rewrite densl_length. destruct (Nat.leb_spec (length v) 1); [lia|]. fold m.
        rewrite densl_app.
        rewrite (ext_densl _ _ _ _ _ X3 Hi2 Hlo'), (D2 inp Hi1), (D3 inp Hi2).
        rewrite (ext_densl _ _ _ _ _ X2 Hi1 Hup).
        specialize (D1 inp Hi). rewrite densl_firstn, densl_skipn in D1.
        rewrite <- D1. reflexivity.
  Qed.

  (* ---- push_bitonic_sorter ---- *)

  Lemma sorter_inner_sound bits L fuel : forall asc b v,
    inv b -> elems_ok b L v -> (bits <= L)%nat -> (length v < fuel)%nat ->
    exists v' b', sorter_inner fuel b bits asc v = Ok (v', b') /\ inv b' /\ ext b b' /\
      elems_ok b' L v' /\ length v' = length v /\
      forall inp, ins_ok b inp ->
        densl inp b' v' = sorter_fuel (gt_key bits) fuel asc (densl inp b v).
  Proof.
    induction fuel as [|f IH]; intros asc b v Hinv Hv Hb Hf; [lia|].
    cbn [sorter_inner sorter_fuel].
    destruct (Nat.leb_spec (length v) 1) as [Hle|Hgt].
    - exists v, b. splits; auto using ext_refl. intros inp Hi. rewrite densl_length.
      destruct (Nat.leb_spec (length v) 1); [reflexivity|lia].
    - set (h := (length v / 2)%nat).
      assert (Hh : (h < length v)%nat) by (apply Nat.div_lt; lia).
      assert (Hh1 : (0 < h)%nat) by (apply Nat.div_str_pos; lia).
      destruct (IH (negb asc) b (firstn h v) Hinv (Forall_firstn _ _ _ Hv) Hb ltac:(rewrite firstn_length; lia))
        as (lo & b1 & E1 & I1 & X1 & Hlo & Llo & D1).
      rewrite E1. cbn [bind]. rewrite firstn_length in Llo.
      destruct (IH asc b1 (skipn h v) I1 (ext_elems_ok _ _ _ _ X1 (Forall_skipn _ _ _ Hv)) Hb
                  ltac:(rewrite skipn_length; lia))
        as (up & b2 & E2 & I2 & X2 & Hup & Lup & D2).
      rewrite E2. cbn [bind]. rewrite skipn_length in Lup.
      assert (Hlen : length (lo ++ up) = length v) by (rewrite app_length; lia).
      destruct (push_bitonic_merger_sound bits L asc (S (length v)) b2 (lo ++ up) I2
                  (elems_ok_app _ _ _ _ (ext_elems_ok _ _ _ _ X2 Hlo) Hup) Hb ltac:(lia))
        as (v' & b3 & E3 & I3 & X3 & Hv' & Lv' & D3).
      rewrite E3. exists v', b3. splits; auto.
      + eapply ext_trans; [exact X1|]. eapply ext_trans; eauto.
      + lia.
      + intros inp Hi. pose proof (ext_ins_ok _ _ _ X1 Hi) as Hi1. pose proof (ext_ins_ok _ _ _ X2 Hi1) as Hi2.
        rewrite densl_length. destruct (Nat.leb_spec (length v) 1); [lia|]. fold h.
        rewrite (D3 inp Hi2). unfold bitonic_merger.
        rewrite densl_app.
        rewrite (ext_densl _ _ _ _ _ X2 Hi1 Hlo), (D1 inp Hi), (D2 inp Hi1).
        rewrite (ext_densl _ _ _ _ _ X1 Hi (Forall_skipn _ _ _ Hv)).
        rewrite densl_firstn, densl_skipn.
        rewrite app_length, !sorter_fuel_length, <- app_length, firstn_skipn, densl_length.
        reflexivity.
  Qed.

  Lemma push_bitonic_sorter_sound bits L b v :
    inv b -> elems_ok b L v -> (bits <= L)%nat ->
    exists v' b', push_bitonic_sorter b bits v = Ok (v', b') /\ inv b' /\ ext b b' /\
      elems_ok b' L v' /\ length v' = length v /\
      forall inp, ins_ok b inp ->
        densl inp b' v' = bitonic_sorter (gt_key bits) (densl inp b v).
  Proof.
    intros Hinv Hv Hb. unfold push_bitonic_sorter, bitonic_sorter.
    destruct (sorter_inner_sound bits L (S (length v)) true b v Hinv Hv Hb ltac:(lia))
      as (v' & b' & E & I' & X' & Hv' & Lv' & D).
    exists v', b'. splits; auto. intros inp Hi. rewrite (D inp Hi), densl_length. reflexivity.
  Qed.

  Lemma push_bitonic_merger_top_sound bits L asc b v :
    inv b -> elems_ok b L v -> (bits <= L)%nat ->
    exists v' b', push_bitonic_merger (S (length v)) b bits asc v = Ok (v', b') /\ inv b' /\ ext b b' /\
      elems_ok b' L v' /\ length v' = length v /\
      forall inp, ins_ok b inp ->
        densl inp b' v' = bitonic_merger (gt_key bits) asc (densl inp b v).
  Proof.
    intros Hinv Hv Hb.
    destruct (push_bitonic_merger_sound bits L asc (S (length v)) b v Hinv Hv Hb ltac:(lia))
      as (v' & b' & E & I' & X' & Hv' & Lv' & D).
    exists v', b'. splits; auto. intros inp Hi. rewrite (D inp Hi). unfold bitonic_merger.
    now rewrite densl_length.
  Qed.

  (* ---- end to end: the circuits sort (bounded) and only move elements ---- *)

  Lemma push_bitonic_sorter_sorts bits L b v :
    inv b -> elems_ok b L v -> (bits <= L)%nat -> (length v <= 16)%nat ->
    exists v' b', push_bitonic_sorter b bits v = Ok (v', b') /\ inv b' /\ ext b b' /\
      elems_ok b' L v' /\ length v' = length v /\
      forall inp, ins_ok b inp ->
        sortedN (map (key bits) (densl inp b' v')) = true /\
        Permutation (densl inp b' v') (densl inp b v).
  Proof.
    intros Hinv Hv Hb Hn.
    destruct (push_bitonic_sorter_sound bits L b v Hinv Hv Hb) as (v' & b' & E & I' & X' & Hv' & Lv' & D).
    exists v', b'. splits; auto. intros inp Hi. rewrite (D inp Hi).
    apply sorter_elems_bounded. now rewrite densl_length.
  Qed.

  Lemma push_bitonic_merger_sorts_up_down bits L b v k :
    inv b -> elems_ok b L v -> (bits <= L)%nat -> (k <= 8)%nat -> length v = (2 ^ k)%nat ->
    exists v' b', push_bitonic_merger (S (length v)) b bits true v = Ok (v', b') /\ inv b' /\ ext b b' /\
      elems_ok b' L v' /\ length v' = length v /\
      forall inp, ins_ok b inp -> up_then_down (map (key bits) (densl inp b v)) ->
        sortedN (map (key bits) (densl inp b' v')) = true /\
        Permutation (densl inp b' v') (densl inp b v).
  Proof.
    intros Hinv Hv Hb Hk Hn.
    destruct (push_bitonic_merger_top_sound bits L true b v Hinv Hv Hb) as (v' & b' & E & I' & X' & Hv' & Lv' & D).
    exists v', b'. splits; auto. intros inp Hi Hs. rewrite (D inp Hi).
    apply (merger_elems_up_down_bounded bits _ k); auto. now rewrite densl_length.
  Qed.

  Lemma push_bitonic_merger_sorts_down_up bits L b v :
    inv b -> elems_ok b L v -> (bits <= L)%nat -> (length v <= 64)%nat ->
    exists v' b', push_bitonic_merger (S (length v)) b bits true v = Ok (v', b') /\ inv b' /\ ext b b' /\
      elems_ok b' L v' /\ length v' = length v /\
      forall inp, ins_ok b inp -> down_then_up (map (key bits) (densl inp b v)) ->
        sortedN (map (key bits) (densl inp b' v')) = true /\
        Permutation (densl inp b' v') (densl inp b v).
  Proof.
    intros Hinv Hv Hb Hn.
    destruct (push_bitonic_merger_top_sound bits L true b v Hinv Hv Hb) as (v' & b' & E & I' & X' & Hv' & Lv' & D).
    exists v', b'. splits; auto. intros inp Hi Hs. rewrite (D inp Hi).
    apply merger_elems_down_up_bounded; auto. now rewrite densl_length.
  Qed.
End S.
