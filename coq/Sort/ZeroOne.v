(* C13 — the zero-one principle for compare-exchange networks (lists of (i, j, direction)
   operations, Sort.run_net), the shape of 0/1 bitonic sequences, and the bounded theorems
   obtained by lifting the vm_compute checks of SortBounded.v through the principle. *)
From Coq Require Import Permutation.
From GV Require Import Base.Util Gadgets.Gadgets Sort.Sort Sort.SortProofs Sort.SortBounded.

(* ---------------------------------------------------------------- maps that commute *)

Section Commute.
  Context {A B : Type}.
  Variable gtA : A -> A -> bool.
  Variable gtB' : B -> B -> bool.
  Variable f : A -> B.

  (* f is compatible with one compare-exchange *)
  Definition cx_compat : Prop := forall asc x y,
    cx gtB' asc (f x) (f y) = (f (fst (cx gtA asc x y)), f (snd (cx gtA asc x y))).

  Hypothesis compat : cx_compat.

  Lemma map_upd (l : list A) : forall i a, map f (upd l i a) = upd (map f l) i (f a).
  Proof. induction l as [|x l IH]; intros [|i] a; cbn [upd map]; try reflexivity. now rewrite IH. Qed.

  Lemma run_op_map v o : map f (run_op gtA v o) = run_op gtB' (map f v) o.
  Proof.
    destruct o as [[i j] asc]. unfold run_op. rewrite !nth_error_map.
    destruct (nth_error v i) as [x|]; cbn [option_map]; [|reflexivity].
    destruct (nth_error v j) as [y|]; cbn [option_map]; [|reflexivity].
    rewrite compat. destruct (cx gtA asc x y) as [lo hi]. cbn [fst snd]. now rewrite !map_upd.
  Qed.

  Lemma run_net_map net : forall v, map f (run_net gtA net v) = run_net gtB' net (map f v).
  Proof.
    unfold run_net. induction net as [|o net IH]; intro v; cbn [fold_left]; [reflexivity|].
    now rewrite IH, run_op_map.
  Qed.
End Commute.

(* a key function whose order is the element order *)
Lemma cx_compat_key {A B} (gtA : A -> A -> bool) (gtB' : B -> B -> bool) (f : A -> B) :
  (forall x y, gtA x y = gtB' (f x) (f y)) -> cx_compat gtA gtB' f.
Proof.
  intros H asc x y. unfold cx, sorter. rewrite <- H. destruct (gtA x y), asc; reflexivity.
Qed.

(* thresholding is monotone, hence compatible *)
Lemma cx_compat_thr t : cx_compat gtN gtB (thr t).
Proof.
  intros asc x y. unfold cx, sorter, gtN, gtB, thr.
  destruct (N.ltb_spec y x), asc; cbn [fst snd];
    destruct (N.ltb_spec t x), (N.ltb_spec t y); cbn; try reflexivity; lia.
Qed.

(* ---------------------------------------------------------------- the principle *)

Lemma sortedN_cons a b r : sortedN (a :: b :: r) = (a <=? b) && sortedN (b :: r).
Proof. reflexivity. Qed.
Lemma sortedB_cons a b r : sortedB (a :: b :: r) = leB a b && sortedB (b :: r).
Proof. reflexivity. Qed.

Lemma sorted_by_thresholds (l : list N) :
  (forall t, sortedB (map (thr t) l) = true) -> sortedN l = true.
Proof.
  induction l as [|a [|b r] IH]; intro H; try reflexivity.
  rewrite sortedN_cons. apply andb_true_intro. split.
  - specialize (H b). cbn [map] in H. rewrite sortedB_cons in H. apply andb_prop in H as [H _].
    unfold leB, thr in H. rewrite N.ltb_irrefl in H.
    destruct (N.ltb_spec b a); [discriminate|]. apply N.leb_le. lia.
  - apply IH. intro t. specialize (H t). cbn [map] in H. rewrite sortedB_cons in H.
    apply andb_prop in H as [_ H]. exact H.
Qed.

(* A compare-exchange network that sorts the thresholded (0/1) images of an input sorts
   the input.  Quantifying over all inputs gives the classical statement. *)
Theorem zero_one_principle (net : list cxop) (v : list N) :
  (forall t, sortedB (run_net gtB net (map (thr t) v)) = true) ->
  sortedN (run_net gtN net v) = true.
Proof.
  intro H. apply sorted_by_thresholds. intro t.
  rewrite (run_net_map gtN gtB (thr t) (cx_compat_thr t)). apply H.
Qed.

Corollary zero_one_principle_all (net : list cxop) (n : nat) :
  (forall w : list bool, length w = n -> sortedB (run_net gtB net w) = true) ->
  forall v : list N, length v = n -> sortedN (run_net gtN net v) = true.
Proof. intros H v Hl. apply zero_one_principle. intro t. apply H. now rewrite map_length. Qed.

(* ---------------------------------------------------------------- shapes of 0/1 sequences *)

Lemma thr_mono t a b : a <= b -> leB (thr t a) (thr t b) = true.
Proof. unfold leB, thr. intro. destruct (N.ltb_spec t a), (N.ltb_spec t b); cbn; try reflexivity; lia. Qed.

Lemma sortedN_thr t l : sortedN l = true -> sortedB (map (thr t) l) = true.
Proof.
  induction l as [|a [|b r] IH]; intro H; try reflexivity.
  rewrite sortedN_cons in H. apply andb_prop in H as [H1 H2]. cbn [map]. rewrite sortedB_cons.
  apply andb_true_intro. split; [apply thr_mono; now apply N.leb_le|]. now apply IH.
Qed.

Lemma rev_repeat {X} (x : X) n : rev (repeat x n) = repeat x n.
Proof.
  induction n as [|n IH]; [reflexivity|]. cbn [repeat rev]. rewrite IH.
  clear IH. induction n as [|n IH]; [reflexivity|]. cbn [repeat app]. now rewrite IH.
Qed.

Lemma sortedB_shape l : sortedB l = true -> exists a b, l = repeat false a ++ repeat true b.
Proof.
  induction l as [|x [|y r] IH]; intro H.
  - exists 0%nat, 0%nat. reflexivity.
  - destruct x; [exists 0%nat, 1%nat|exists 1%nat, 0%nat]; reflexivity.
  - rewrite sortedB_cons in H. apply andb_prop in H as [H1 H2].
    destruct (IH H2) as (a & b & E). destruct x.
    + destruct y; [|discriminate]. destruct a as [|a]; [|discriminate].
      exists 0%nat, (S b). cbn [repeat app] in *. now rewrite E.
    + exists (S a), b. cbn [repeat app]. now rewrite E.
Qed.

Lemma sortedB_rev_shape l : sortedB (rev l) = true -> exists a b, l = repeat true a ++ repeat false b.
Proof.
  intro H. destruct (sortedB_shape _ H) as (a & b & E). exists b, a.
  rewrite <- (rev_involutive l), E, rev_app_distr, !rev_repeat. reflexivity.
Qed.

Lemma down_then_up_thr t v : down_then_up v ->
  exists a b c, map (thr t) v = blocks true a b c /\ (a + b + c = length v)%nat.
Proof.
  intros (d & u & -> & Hd & Hu). unfold descN, ascN in *.
  apply (sortedN_thr t) in Hd. apply (sortedN_thr t) in Hu. rewrite map_rev in Hd.
  destruct (sortedB_rev_shape _ Hd) as (a & b1 & Ed). destruct (sortedB_shape _ Hu) as (b2 & c & Eu).
  exists a, (b1 + b2)%nat, c. split.
  - rewrite map_app, Ed, Eu. unfold blocks. cbn [negb]. rewrite repeat_app, <- !app_assoc. reflexivity.
  - rewrite <- (map_length (thr t)), map_app, Ed, Eu, !app_length, !repeat_length. lia.
Qed.

Lemma up_then_down_thr t v : up_then_down v ->
  exists a b c, map (thr t) v = blocks false a b c /\ (a + b + c = length v)%nat.
Proof.
  intros (u & d & -> & Hu & Hd). unfold descN, ascN in *.
  apply (sortedN_thr t) in Hd. apply (sortedN_thr t) in Hu. rewrite map_rev in Hd.
  destruct (sortedB_rev_shape _ Hd) as (b2 & c & Ed). destruct (sortedB_shape _ Hu) as (a & b1 & Eu).
  exists a, (b1 + b2)%nat, c. split.
  - rewrite map_app, Ed, Eu. unfold blocks. cbn [negb]. rewrite repeat_app, <- !app_assoc. reflexivity.
  - rewrite <- (map_length (thr t)), map_app, Ed, Eu, !app_length, !repeat_length. lia.
Qed.

Lemma splits3_complete n a b c : (a + b + c = n)%nat -> In (a, b, c) (splits3 n).
Proof.
  intro H. unfold splits3. apply in_flat_map. exists a. split; [apply in_seq; lia|].
  apply in_map_iff. exists b. split; [f_equal; lia|apply in_seq; lia].
Qed.

Lemma check_merger_blocks_sound x n a b c :
  check_merger_blocks x n = true -> (a + b + c = n)%nat ->
  sortedB (bitonic_merger gtB true (blocks x a b c)) = true.
Proof.
  intros H E. unfold check_merger_blocks in H. rewrite forallb_forall in H.
  exact (H (a, b, c) (splits3_complete n a b c E)).
Qed.

Lemma all_bools_complete n : forall w, length w = n -> In w (all_bools n).
Proof.
  induction n as [|n IH]; intros [|x w] H; try discriminate; [now left|].
  cbn [all_bools]. apply in_or_app. injection H as H.
  destruct x; [right|left]; apply in_map; now apply IH.
Qed.

(* ---------------------------------------------------------------- bounded theorems on keys *)

Lemma merger_sorts_by_blocks x (v : list N) :
  check_merger_blocks x (length v) = true ->
  (forall t, exists a b c, map (thr t) v = blocks x a b c /\ (a + b + c = length v)%nat) ->
  sortedN (bitonic_merger gtN true v) = true.
Proof.
  intros Hc Hs. rewrite <- bitonic_merger_net_correct. apply zero_one_principle. intro t.
  destruct (Hs t) as (a & b & c & E & Hl).
  rewrite <- (map_length (thr t) v) at 1. rewrite bitonic_merger_net_correct, E.
  now apply (check_merger_blocks_sound x (length v)).
Qed.

(* the (arbitrary-length) ascending merger sorts every down-then-up sequence of length <= 64 *)
Theorem merger_sorts_down_up_bounded (v : list N) :
  (length v <= 64)%nat -> down_then_up v -> sortedN (bitonic_merger gtN true v) = true.
Proof.
  intros Hn Hs. apply (merger_sorts_by_blocks true).
  - pose proof check_down_up_64 as H. rewrite forallb_forall in H. apply H, in_seq. lia.
  - intro t. now apply down_then_up_thr.
Qed.

(* on a power-of-two length (<= 256) it also sorts every up-then-down sequence — the shape
   compile_bitonic_merge feeds it: zero padding, a ascending, b reversed *)
Theorem merger_sorts_up_down_bounded (v : list N) (k : nat) :
  (k <= 8)%nat -> length v = (2 ^ k)%nat -> up_then_down v ->
  sortedN (bitonic_merger gtN true v) = true.
Proof.
  intros Hk Hn Hs. apply (merger_sorts_by_blocks false).
  - pose proof check_up_down_pow2_256 as H. rewrite forallb_forall in H. apply H.
    rewrite Hn. apply in_map, in_seq. lia.
  - intro t. now apply up_then_down_thr.
Qed.

(* the bitonic sorter sorts every key vector of length <= 16 *)
Theorem sorter_sorts_bounded (v : list N) :
  (length v <= 16)%nat -> sortedN (bitonic_sorter gtN v) = true.
Proof.
  intro Hn. rewrite <- bitonic_sorter_net_correct. apply zero_one_principle. intro t.
  rewrite <- (map_length (thr t) v) at 1. rewrite bitonic_sorter_net_correct.
  pose proof check_sorter_16 as H. rewrite forallb_forall in H.
  specialize (H (length v) ltac:(apply in_seq; lia)). unfold check_sorter_all in H.
  rewrite forallb_forall in H. apply H, all_bools_complete. apply map_length.
Qed.

(* ---------------------------------------------------------------- the same on elements *)

Lemma merger_keys bits asc (v : list elem) :
  map (key bits) (bitonic_merger (gt_key bits) asc v) = bitonic_merger gtN asc (map (key bits) v).
Proof.
  rewrite <- !bitonic_merger_net_correct, map_length.
  apply run_net_map, cx_compat_key. reflexivity.
Qed.

Lemma sorter_keys bits (v : list elem) :
  map (key bits) (bitonic_sorter (gt_key bits) v) = bitonic_sorter gtN (map (key bits) v).
Proof.
  rewrite <- !bitonic_sorter_net_correct, map_length.
  apply run_net_map, cx_compat_key. reflexivity.
Qed.

Theorem merger_elems_down_up_bounded bits (v : list elem) :
  (length v <= 64)%nat -> down_then_up (map (key bits) v) ->
  sortedN (map (key bits) (bitonic_merger (gt_key bits) true v)) = true /\
  Permutation (bitonic_merger (gt_key bits) true v) v.
Proof.
  intros Hn Hs. split; [|apply bitonic_merger_perm].
  rewrite merger_keys. apply merger_sorts_down_up_bounded; [now rewrite map_length|exact Hs].
Qed.

Theorem merger_elems_up_down_bounded bits (v : list elem) k :
  (k <= 8)%nat -> length v = (2 ^ k)%nat -> up_then_down (map (key bits) v) ->
  sortedN (map (key bits) (bitonic_merger (gt_key bits) true v)) = true /\
  Permutation (bitonic_merger (gt_key bits) true v) v.
Proof.
  intros Hk Hn Hs. split; [|apply bitonic_merger_perm].
  rewrite merger_keys. apply (merger_sorts_up_down_bounded _ k); [exact Hk|now rewrite map_length|exact Hs].
Qed.

Theorem sorter_elems_bounded bits (v : list elem) :
  (length v <= 16)%nat ->
  sortedN (map (key bits) (bitonic_sorter (gt_key bits) v)) = true /\
  Permutation (bitonic_sorter (gt_key bits) v) v.
Proof.
  intro Hn. split; [|apply bitonic_sorter_perm].
  rewrite sorter_keys. apply sorter_sorts_bounded. now rewrite map_length.
Qed.

(* the counterexample behind the restriction to powers of two *)
Lemma merger_up_down_counterexample :
  up_then_down [0; 1; 0] /\ sortedN (bitonic_merger gtN true [0; 1; 0]) = false.
Proof.
  split; [|reflexivity]. exists [0; 1], [0]. repeat split.
Qed.

(* GOAL (unbounded; kept as comments, not proved):
   merger_sorts_down_up : forall v, down_then_up v -> sortedN (bitonic_merger gtN true v) = true.
   merger_sorts_up_down : forall v k, length v = 2 ^ k -> up_then_down v ->
                          sortedN (bitonic_merger gtN true v) = true.
   sorter_sorts         : forall v, sortedN (bitonic_sorter gtN v) = true. *)
