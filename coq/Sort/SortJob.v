(* `sortnet` jobs (C13 tie): a sequence of sorting-network requests against the builder-form
   gadgets of Gadgets.v (push_gt_circuit / push_sorter / push_bitonic_merger /
   push_bitonic_sorter), applied to one vector of elements (wire lists).  Mirrors
   harness/src/sortnet.rs request by request.  Definitions only. *)
From GV Require Import Base.Util Base.NMap Builder.Builder Gadgets.Gadgets.

Inductive sop : Type :=
| SGt (bits : nat) (i j : N)          (* push_gt_circuit(bits, v[i], v[j]) -> extra wire *)
| SSorter (bits : nat) (i j : N)      (* (v[i], v[j]) := push_sorter(bits, v[i], v[j]) *)
| SMerger (bits : nat) (asc : bool)   (* push_bitonic_merger(bits, asc, v) *)
| SBSorter (bits : nat).              (* push_bitonic_sorter(bits, v) *)

Fixpoint set_nth {A} (l : list A) (i : nat) (a : A) : list A :=
  match l, i with
  | [], _ => []
  | _ :: r, O => a :: r
  | x :: r, S k => x :: set_nth r k a
  end.

(* v[i] := a; Rust panics when i is out of range *)
Definition setN {A} (l : list A) (i : N) (a : A) : res (list A) :=
  if i <? lenN l then Ok (set_nth l (N.to_nat i) a) else Crash.

(* state: builder, element vector, extra result wires (reversed) *)
Definition run_sop (st : B * list (list W) * list W) (o : sop) : res (B * list (list W) * list W) :=
  let '(b, v, ex) := st in
  match o with
  | SGt bits i j =>
      let* x := of_option (nthN v i) in
      let* y := of_option (nthN v j) in
      let* (g, b1) := push_gt_circuit b bits x y in
      Ok (b1, v, g :: ex)
  | SSorter bits i j =>
      let* x := of_option (nthN v i) in
      let* y := of_option (nthN v j) in
      let* ((mn, mx), b1) := push_sorter b bits x y in
      let* v1 := setN v i mn in
      let* v2 := setN v1 j mx in
      Ok (b1, v2, ex)
  | SMerger bits asc =>
      let* (v1, b1) := push_bitonic_merger (S (length v)) b bits asc v in
      Ok (b1, v1, ex)
  | SBSorter bits =>
      let* (v1, b1) := push_bitonic_sorter b bits v in
      Ok (b1, v1, ex)
  end.

Fixpoint run_sops (st : B * list (list W) * list W) (os : list sop) : res (B * list (list W) * list W) :=
  match os with
  | [] => Ok st
  | o :: r => let* st1 := run_sop st o in run_sops st1 r
  end.
