(* C13 — proofs about the pure sorting-network specification Sort.v:
   gt_correct, network = recursion, permutation, and the Hoare lifts of the builder-form
   gadgets (Section S, assuming only builder_ops_sound). *)
From Coq Require Import Permutation.
From GV Require Import Base.Util Base.NMap Builder.Builder Builder.BuilderSem Builder.BuilderSpec
  Gadgets.Gadgets Sort.Sort.

(* ---------------------------------------------------------------- gt on keys *)

Lemma bits_val_lt l : bits_val l < 2 ^ lenN l.
Proof.
  induction l as [|b r IH]; cbn [bits_val].
  - unfold lenN. cbn. lia.
  - rewrite lenN_cons. replace (1 + lenN r) with (N.succ (lenN r)) by lia.
    rewrite N.pow_succ_r by lia. destruct b; lia.
Qed.

Lemma gt_step_lex c x y : gt_step c (x, y) = if eqb x y then c else x.
Proof. destruct c, x, y; reflexivity. Qed.

Lemma gt_chain_rev_cons xy l : gt_chain (rev (xy :: l)) = gt_step (gt_chain (rev l)) xy.
Proof. unfold gt_chain. cbn [rev]. rewrite fold_left_app. reflexivity. Qed.

Lemma gt_chain_lex lx : forall ly, length lx = length ly ->
  gt_chain (rev (combine lx ly)) = (bits_val ly <? bits_val lx).
Proof.
  induction lx as [|x rx IH]; intros [|y ry] Hl; try discriminate.
  - reflexivity.
  - cbn [combine]. rewrite gt_chain_rev_cons, gt_step_lex, IH by (cbn [length] in Hl; lia).
    cbn [bits_val]. assert (Hlen : lenN rx = lenN ry) by (unfold lenN; cbn [length] in Hl; lia).
    pose proof (bits_val_lt rx) as Hx. pose proof (bits_val_lt ry) as Hy. rewrite Hlen in *.
    destruct x, y; cbn [eqb].
    + destruct (N.ltb_spec (bits_val ry) (bits_val rx)), (N.ltb_spec (2 ^ lenN ry + bits_val ry) (2 ^ lenN ry + bits_val rx)); try reflexivity; lia.
    + symmetry. apply N.ltb_lt. lia.
    + symmetry. apply N.ltb_ge. lia.
    + reflexivity.
Qed.

(* the carry chain of push_gt_circuit computes "key x > key y" (unsigned, MSB first),
   for every width *)
Lemma gt_correct bits x y :
  (bits <= length x)%nat -> (bits <= length y)%nat -> gt bits x y = gt_key bits x y.
Proof.
  intros Hx Hy. unfold gt, gt_key, gtN, key. apply gt_chain_lex.
  rewrite !firstn_length. lia.
Qed.

(* ---------------------------------------------------------------- condswap / sorter on bits *)

Lemma condswap_spec s x y : condswap s x y = if s then (y, x) else (x, y).
Proof. destruct s, x, y; reflexivity. Qed.

Lemma condswap_list_spec s x : forall y, length x = length y ->
  condswap_list s x y = if s then (y, x) else (x, y).
Proof.
  unfold condswap_list. induction x as [|a x IH]; intros [|b y] Hl; try discriminate.
  - destruct s; reflexivity.
  - cbn [combine map fst snd]. specialize (IH y ltac:(cbn [length] in Hl; lia)).
    rewrite condswap_spec.
    destruct s; cbn [fst snd]; injection IH as H1 H2; rewrite H1, H2; reflexivity.
Qed.

Lemma sorter_bits_spec bits x y :
  length x = length y -> (bits <= length x)%nat ->
  sorter_bits bits x y = sorter (gt_key bits) x y.
Proof.
  intros Hl Hb. unfold sorter_bits, sorter. rewrite condswap_list_spec by exact Hl.
  rewrite gt_correct by lia. reflexivity.
Qed.

(* ---------------------------------------------------------------- pow2_below *)

Lemma pow2_below_spec fuel : forall p n, (1 <= p)%nat -> (p < n)%nat -> (n <= p + fuel)%nat ->
  let r := pow2_below fuel p n in (p <= r)%nat /\ (r < n)%nat /\ (n <= 2 * r)%nat.
Proof.
  induction fuel as [|f IH]; intros p n Hp Hlt Hf; cbn [pow2_below].
  - lia.
  - destruct (Nat.ltb_spec (2 * p) n) as [H|H].
    + specialize (IH (2 * p)%nat n ltac:(lia) H ltac:(lia)). cbn zeta in IH. lia.
    + lia.
Qed.

Lemma pow2_below_top n : (2 <= n)%nat ->
  let m := pow2_below n 1 n in (1 <= m)%nat /\ (m < n)%nat /\ (n <= 2 * m)%nat.
Proof. intro H. apply pow2_below_spec; lia. Qed.

(* ---------------------------------------------------------------- generic network lemmas *)

Section NetProofs.
  Context {A : Type}.
  Variable gtb : A -> A -> bool.

  Lemma upd_length (l : list A) : forall i a, length (upd l i a) = length l.
  Proof. induction l as [|x r IH]; intros [|i] a; cbn [upd length]; auto. Qed.

  Lemma upd_app1 (l r : list A) : forall i a, (i < length l)%nat -> upd (l ++ r) i a = upd l i a ++ r.
  Proof.
    induction l as [|x l IH]; intros i a Hi; cbn [length] in Hi; [lia|].
    destruct i as [|i]; cbn [upd app]; [reflexivity|]. f_equal. apply IH. lia.
  Qed.

  Lemma upd_app2 (l r : list A) : forall i a, upd (l ++ r) (length l + i) a = l ++ upd r i a.
  Proof. induction l as [|x l IH]; intros i a; cbn [upd app length Nat.add]; [reflexivity|]. f_equal. apply IH. Qed.

  Lemma upd_here (p q : list A) a b : upd (p ++ a :: q) (length p) b = p ++ b :: q.
  Proof. rewrite <- (Nat.add_0_r (length p)), upd_app2. reflexivity. Qed.

  Lemma nth_error_here (p q : list A) a : nth_error (p ++ a :: q) (length p) = Some a.
  Proof. rewrite nth_error_app2 by lia. rewrite Nat.sub_diag. reflexivity. Qed.

  Lemma upd_same (l : list A) : forall i a, nth_error l i = Some a -> upd l i a = l.
  Proof.
    induction l as [|x l IH]; intros [|i] a H; cbn [nth_error upd] in *; try discriminate.
    - congruence.
    - f_equal. now apply IH.
  Qed.

  Lemma cx_cases asc x y : cx gtb asc x y = (x, y) \/ cx gtb asc x y = (y, x).
  Proof. unfold cx, sorter. destruct (gtb x y), asc; auto. Qed.

  Lemma run_op_length v o : length (run_op gtb v o) = length v.
  Proof.
    destruct o as [[i j] asc]. unfold run_op.
    destruct (nth_error v i); [|reflexivity]. destruct (nth_error v j); [|reflexivity].
    destruct (cx gtb asc a a0). now rewrite !upd_length.
  Qed.

  Lemma run_net_length net : forall v, length (run_net gtb net v) = length v.
  Proof.
    unfold run_net. induction net as [|o net IH]; intro v; cbn [fold_left]; [reflexivity|].
    rewrite IH. apply run_op_length.
  Qed.

  Lemma run_net_app n1 n2 v : run_net gtb (n1 ++ n2) v = run_net gtb n2 (run_net gtb n1 v).
  Proof. unfold run_net. apply fold_left_app. Qed.

  Definition op_below (n : nat) (o : cxop) : Prop := let '(i, j, _) := o in (i < n)%nat /\ (j < n)%nat.

  Lemma run_op_frame_right l r o : op_below (length l) o -> run_op gtb (l ++ r) o = run_op gtb l o ++ r.
  Proof.
    destruct o as [[i j] asc]. intros [Hi Hj]. unfold run_op.
    rewrite !nth_error_app1 by assumption.
    destruct (nth_error l i); [|reflexivity]. destruct (nth_error l j); [|reflexivity].
    destruct (cx gtb asc a a0). rewrite upd_app1 by assumption.
    rewrite upd_app1 by (now rewrite upd_length). reflexivity.
  Qed.

  Lemma run_net_frame_right net : forall l r, Forall (op_below (length l)) net ->
    run_net gtb net (l ++ r) = run_net gtb net l ++ r.
  Proof.
    induction net as [|o net IH]; intros l r H; [reflexivity|].
    inversion H as [|? ? Ho Hn]; subst. unfold run_net in *. cbn [fold_left].
    rewrite run_op_frame_right by assumption. apply IH. now rewrite run_op_length.
  Qed.

  Lemma run_op_frame_left l r o : run_op gtb (l ++ r) (shift_op (length l) o) = l ++ run_op gtb r o.
  Proof.
    destruct o as [[i j] asc]. unfold run_op, shift_op.
    rewrite !nth_error_app2 by lia.
    replace (length l + i - length l)%nat with i by lia.
    replace (length l + j - length l)%nat with j by lia.
    destruct (nth_error r i); [|reflexivity]. destruct (nth_error r j); [|reflexivity].
    destruct (cx gtb asc a a0). now rewrite !upd_app2.
  Qed.

  Lemma run_net_frame_left net : forall l r,
    run_net gtb (shift_net (length l) net) (l ++ r) = l ++ run_net gtb net r.
  Proof.
    induction net as [|o net IH]; intros l r; [reflexivity|].
    unfold run_net, shift_net in *. cbn [map fold_left]. rewrite run_op_frame_left. apply IH.
  Qed.

  (* ---- merge_pairs ---- *)

  Lemma merge_pairs_length asc lower : forall upper,
    length (fst (merge_pairs gtb asc lower upper)) = length lower /\
    length (snd (merge_pairs gtb asc lower upper)) = length upper.
  Proof.
    induction lower as [|x lr IH]; intros [|y ur]; cbn [merge_pairs fst snd length]; auto.
    destruct (cx gtb asc x y) as [lo hi]. specialize (IH ur).
    destruct (merge_pairs gtb asc lr ur) as [a b]. cbn [fst snd length] in *. lia.
  Qed.

  Lemma merge_pairs_app asc l1 : forall l2 mid, length l1 = length l2 ->
    merge_pairs gtb asc (l1 ++ mid) l2 =
    (fst (merge_pairs gtb asc l1 l2) ++ mid, snd (merge_pairs gtb asc l1 l2)).
  Proof.
    induction l1 as [|x l1 IH]; intros [|y l2] mid Hl; try discriminate.
    - cbn [app merge_pairs fst snd]. destruct mid; reflexivity.
    - cbn [app merge_pairs]. destruct (cx gtb asc x y) as [lo hi].
      rewrite IH by (cbn [length] in Hl; lia).
      destruct (merge_pairs gtb asc l1 l2) as [a b]. reflexivity.
  Qed.

  Lemma pairs_net_S g k asc :
    pairs_net g (S k) asc = (0%nat, g, asc) :: shift_net 1 (pairs_net g k asc).
  Proof.
    unfold pairs_net, shift_net. cbn [seq map]. f_equal.
    rewrite <- seq_shift, !map_map. apply map_ext. intro i. reflexivity.
  Qed.

  Lemma run_pairs_net asc l1 : forall l2 mid rest, length l1 = length l2 ->
    run_net gtb (pairs_net (length l1 + length mid) (length l1) asc) (l1 ++ mid ++ l2 ++ rest) =
    fst (merge_pairs gtb asc l1 l2) ++ mid ++ snd (merge_pairs gtb asc l1 l2) ++ rest.
  Proof.
    induction l1 as [|x l1 IH]; intros [|y l2] mid rest Hl; try discriminate.
    - reflexivity.
    - cbn [length Nat.add]. rewrite pairs_net_S.
      change (run_net gtb (?o :: ?n) ?v) with (run_net gtb n (run_op gtb v o)).
      assert (Hv : (x :: l1) ++ mid ++ (y :: l2) ++ rest = x :: (l1 ++ mid) ++ y :: (l2 ++ rest))
        by (cbn [app]; now rewrite <- app_assoc).
      rewrite Hv. unfold run_op.
      replace (nth_error (x :: (l1 ++ mid) ++ y :: l2 ++ rest) 0) with (Some x) by reflexivity.
      replace (S (length l1 + length mid)) with (S (length (l1 ++ mid))) by (now rewrite app_length).
      cbn [nth_error]. rewrite nth_error_here.
      cbn [merge_pairs]. destruct (cx gtb asc x y) as [lo hi].
      cbn [upd]. rewrite upd_here.
      change (lo :: (l1 ++ mid) ++ hi :: l2 ++ rest) with ([lo] ++ ((l1 ++ mid) ++ hi :: l2 ++ rest)).
      change 1%nat with (length [lo]).
      rewrite run_net_frame_left.
      replace ((l1 ++ mid) ++ hi :: l2 ++ rest) with (l1 ++ (mid ++ [hi]) ++ l2 ++ rest)
        by (rewrite <- !app_assoc; reflexivity).
      specialize (IH l2 (mid ++ [hi]) rest ltac:(cbn [length] in Hl; lia)).
      rewrite app_length in IH. cbn [length] in IH.
      replace (S (length (l1 ++ mid))) with (length l1 + (length mid + 1))%nat
        by (rewrite app_length; lia).
      rewrite IH. destruct (merge_pairs gtb asc l1 l2) as [a b]. cbn [fst snd app].
      rewrite <- !app_assoc. reflexivity.
  Qed.

  Lemma merge_pairs_split asc v m : (m <= length v)%nat -> (length v <= 2 * m)%nat ->
    run_net gtb (pairs_net m (length v - m) asc) v =
    fst (merge_pairs gtb asc (firstn m v) (skipn m v)) ++ snd (merge_pairs gtb asc (firstn m v) (skipn m v)).
  Proof.
    intros Hm Hn.
    set (k := (length v - m)%nat).
    set (lower := firstn m v). set (upper := skipn m v).
    assert (Hll : length lower = m) by (unfold lower; rewrite firstn_length; lia).
    assert (Hlu : length upper = k) by (unfold upper, k; now rewrite skipn_length).
    set (l1 := firstn k lower). set (mid := skipn k lower).
    assert (Hl1 : length l1 = k) by (unfold l1; rewrite firstn_length; lia).
    assert (Hmid : length mid = (m - k)%nat) by (unfold mid; rewrite skipn_length; lia).
    assert (Hv : v = l1 ++ mid ++ upper ++ []).
    { rewrite app_nil_r, app_assoc. unfold l1, mid. rewrite firstn_skipn. unfold lower, upper.
      now rewrite firstn_skipn. }
    assert (Hlow : lower = l1 ++ mid) by (unfold l1, mid; now rewrite firstn_skipn).
    rewrite Hlow, merge_pairs_app by lia. cbn [fst snd].
    rewrite Hv at 1.
    replace (pairs_net m k asc) with (pairs_net (length l1 + length mid) (length l1) asc)
      by (f_equal; lia).
    rewrite run_pairs_net by lia. rewrite app_nil_r, app_assoc. reflexivity.
  Qed.

  Lemma pairs_net_below g k asc : Forall (op_below (k + g)) (pairs_net g k asc).
  Proof.
    unfold pairs_net. apply Forall_forall. intros o Ho. apply in_map_iff in Ho.
    destruct Ho as (i & <- & Hi). apply in_seq in Hi. cbn. lia.
  Qed.

  Lemma op_below_mono n n' o : (n <= n')%nat -> op_below n o -> op_below n' o.
  Proof. destruct o as [[i j] asc]. cbn. lia. Qed.

  Lemma Forall_below_mono n n' net : (n <= n')%nat -> Forall (op_below n) net -> Forall (op_below n') net.
  Proof. intros H. apply Forall_impl. intro o. now apply op_below_mono. Qed.

  Lemma shift_net_below k n net : Forall (op_below n) net -> Forall (op_below (k + n)) (shift_net k net).
  Proof.
    intro H. unfold shift_net. apply Forall_forall. intros o Ho. apply in_map_iff in Ho.
    destruct Ho as ([[i j] asc] & <- & Hi). rewrite Forall_forall in H. specialize (H _ Hi). cbn in *. lia.
  Qed.

  Lemma merger_net_below fuel : forall n asc, Forall (op_below n) (merger_net fuel n asc).
  Proof.
    induction fuel as [|f IH]; intros n asc; cbn [merger_net]; [constructor|].
    destruct (Nat.leb_spec n 1) as [H|H]; [constructor|].
    destruct (pow2_below_top n ltac:(lia)) as (H1 & H2 & H3).
    set (m := pow2_below n 1 n) in *.
    apply Forall_app; split; [|apply Forall_app; split].
    - replace n with ((n - m) + m)%nat at 1 by lia. apply pairs_net_below.
    - apply (Forall_below_mono m); [lia|apply IH].
    - replace n with (m + (n - m))%nat at 1 by lia. apply shift_net_below, IH.
  Qed.

  Lemma merger_fuel_length fuel : forall asc v, length (merger_fuel gtb fuel asc v) = length v.
  Proof.
    induction fuel as [|f IH]; intros asc v; cbn [merger_fuel]; [reflexivity|].
    destruct (Nat.leb_spec (length v) 1) as [H|H]; [reflexivity|].
    set (m := pow2_below (length v) 1 (length v)).
    pose proof (merge_pairs_length asc (firstn m v) (skipn m v)) as [L1 L2].
    destruct (merge_pairs gtb asc (firstn m v) (skipn m v)) as [lo up]. cbn [fst snd] in *.
    rewrite app_length, !IH, L1, L2, <- app_length, firstn_skipn. reflexivity.
  Qed.

  (* the recursive merger is the network merger_net *)
  Lemma merger_net_correct fuel : forall asc v,
    run_net gtb (merger_net fuel (length v) asc) v = merger_fuel gtb fuel asc v.
  Proof.
    induction fuel as [|f IH]; intros asc v; cbn [merger_net merger_fuel]; [reflexivity|].
    destruct (Nat.leb_spec (length v) 1) as [H|H]; [reflexivity|].
    destruct (pow2_below_top (length v) ltac:(lia)) as (H1 & H2 & H3).
    set (m := pow2_below (length v) 1 (length v)) in *.
    rewrite !run_net_app, merge_pairs_split by lia.
    pose proof (merge_pairs_length asc (firstn m v) (skipn m v)) as [L1 L2].
    destruct (merge_pairs gtb asc (firstn m v) (skipn m v)) as [lo up]. cbn [fst snd] in *.
    rewrite firstn_length in L1. rewrite skipn_length in L2.
    assert (Hlo : length lo = m) by lia. assert (Hup : length up = (length v - m)%nat) by lia.
    assert (E1 : run_net gtb (merger_net f m asc) (lo ++ up) = merger_fuel gtb f asc lo ++ up).
    { rewrite run_net_frame_right by (rewrite Hlo; apply merger_net_below).
      f_equal. rewrite <- Hlo. apply IH. }
    rewrite E1.
    assert (E2 : forall l, length l = m ->
      run_net gtb (shift_net m (merger_net f (length v - m) asc)) (l ++ up) = l ++ merger_fuel gtb f asc up).
    { intros l Hl. rewrite <- Hup, <- Hl, run_net_frame_left. f_equal. apply IH. }
    apply E2. now rewrite merger_fuel_length.
  Qed.

  Lemma bitonic_merger_net_correct asc v :
    run_net gtb (bitonic_merger_net (length v) asc) v = bitonic_merger gtb asc v.
  Proof. apply merger_net_correct. Qed.

  Lemma bitonic_merger_length asc v : length (bitonic_merger gtb asc v) = length v.
  Proof. apply merger_fuel_length. Qed.

  Lemma sorter_fuel_length fuel : forall asc v, length (sorter_fuel gtb fuel asc v) = length v.
  Proof.
    induction fuel as [|f IH]; intros asc v; cbn [sorter_fuel]; [reflexivity|].
    destruct (Nat.leb_spec (length v) 1) as [H|H]; [reflexivity|].
    rewrite bitonic_merger_length, app_length, !IH, <- app_length, firstn_skipn. reflexivity.
  Qed.

  Lemma sorter_net_below fuel : forall n asc, Forall (op_below n) (sorter_net fuel n asc).
  Proof.
    induction fuel as [|f IH]; intros n asc; cbn [sorter_net]; [constructor|].
    destruct (Nat.leb_spec n 1) as [H|H]; [constructor|].
    assert (Hh : (n / 2 < n)%nat) by (apply Nat.div_lt; lia).
    apply Forall_app; split; [|apply Forall_app; split].
    - apply (Forall_below_mono (n / 2)); [lia|apply IH].
    - replace n with (n / 2 + (n - n / 2))%nat at 1 by lia. apply shift_net_below, IH.
    - apply merger_net_below.
  Qed.

  Lemma sorter_net_correct fuel : forall asc v,
    run_net gtb (sorter_net fuel (length v) asc) v = sorter_fuel gtb fuel asc v.
  Proof.
    induction fuel as [|f IH]; intros asc v; cbn [sorter_net sorter_fuel]; [reflexivity|].
    destruct (Nat.leb_spec (length v) 1) as [H|H]; [reflexivity|].
    set (h := (length v / 2)%nat).
    assert (Hh : (h < length v)%nat) by (apply Nat.div_lt; lia).
    rewrite !run_net_app.
    assert (Hlf : length (firstn h v) = h) by (rewrite firstn_length; lia).
    assert (Hls : length (skipn h v) = (length v - h)%nat) by (now rewrite skipn_length).
    assert (E1 : run_net gtb (sorter_net f h (negb asc)) (firstn h v ++ skipn h v) =
                 sorter_fuel gtb f (negb asc) (firstn h v) ++ skipn h v).
    { rewrite run_net_frame_right by (rewrite Hlf; apply sorter_net_below).
      f_equal. rewrite <- Hlf at 1. apply IH. }
    rewrite firstn_skipn in E1. rewrite E1.
    assert (E2 : forall l, length l = h ->
      run_net gtb (shift_net h (sorter_net f (length v - h) asc)) (l ++ skipn h v) =
      l ++ sorter_fuel gtb f asc (skipn h v)).
    { intros l Hl. rewrite <- Hls, <- Hl, run_net_frame_left. f_equal. apply IH. }
    rewrite E2 by (now rewrite sorter_fuel_length).
    set (w := sorter_fuel gtb f (negb asc) (firstn h v) ++ sorter_fuel gtb f asc (skipn h v)).
    assert (Hw : length w = length v).
    { unfold w. rewrite app_length, !sorter_fuel_length, <- app_length, firstn_skipn. reflexivity. }
    unfold bitonic_merger. rewrite <- Hw. apply merger_net_correct.
  Qed.

  Lemma bitonic_sorter_net_correct v :
    run_net gtb (bitonic_sorter_net (length v)) v = bitonic_sorter gtb v.
  Proof. apply sorter_net_correct. Qed.

  Lemma bitonic_sorter_length v : length (bitonic_sorter gtb v) = length v.
  Proof. apply sorter_fuel_length. Qed.

  (* ---- permutation: every compare-exchange network only moves elements ---- *)

  Lemma upd_swap_head (r : list A) : forall j x y, nth_error r j = Some y ->
    Permutation (y :: upd r j x) (x :: r).
  Proof.
    induction r as [|z r IH]; intros [|j] x y H; cbn [nth_error upd] in *; try discriminate.
    - injection H as ->. apply perm_swap.
    - eapply perm_trans; [apply perm_swap|]. eapply perm_trans; [|apply perm_swap].
      apply perm_skip. now apply IH.
  Qed.

  Lemma upd_swap_perm (v : list A) : forall i j x y, i <> j ->
    nth_error v i = Some x -> nth_error v j = Some y ->
    Permutation (upd (upd v i y) j x) v.
  Proof.
    induction v as [|z v IH]; intros [|i] [|j] x y Hne Hi Hj; cbn [nth_error upd] in *;
      try discriminate; try congruence.
    - injection Hi as ->. apply (upd_swap_head v j x y Hj).
    - injection Hj as ->. apply (upd_swap_head v i y x Hi).
    - apply perm_skip. apply (IH i j x y); auto.
  Qed.

  Lemma run_op_perm v o : Permutation (run_op gtb v o) v.
  Proof.
    destruct o as [[i j] asc]. unfold run_op.
    destruct (nth_error v i) as [x|] eqn:Hi; [|reflexivity].
    destruct (nth_error v j) as [y|] eqn:Hj; [|reflexivity].
    destruct (Nat.eq_dec i j) as [->|Hne].
    - assert (x = y) by congruence. subst y.
      destruct (cx_cases asc x x) as [-> | ->]; rewrite (upd_same v j x Hj), (upd_same v j x Hj); reflexivity.
    - destruct (cx_cases asc x y) as [-> | ->].
      + rewrite (upd_same v i x Hi), (upd_same v j y Hj). reflexivity.
      + now apply upd_swap_perm.
  Qed.

  Lemma cmpx_perm net : forall v, Permutation (run_net gtb net v) v.
  Proof.
    unfold run_net. induction net as [|o net IH]; intro v; cbn [fold_left]; [reflexivity|].
    eapply perm_trans; [apply IH|apply run_op_perm].
  Qed.

  Lemma bitonic_merger_perm asc v : Permutation (bitonic_merger gtb asc v) v.
  Proof. rewrite <- bitonic_merger_net_correct. apply cmpx_perm. Qed.

  Lemma bitonic_sorter_perm v : Permutation (bitonic_sorter gtb v) v.
  Proof. rewrite <- bitonic_sorter_net_correct. apply cmpx_perm. Qed.
End NetProofs.
