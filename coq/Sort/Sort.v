(* C13 — pure specification of the compare-exchange networks of circuit.rs:1202-1327.
   Elements are [list bool]; the sort key of an element is its first [bits] bits read as an
   unsigned number, most significant bit first.  The recursion of [bitonic_merger] /
   [bitonic_sorter] is exactly that of Gadgets.push_bitonic_merger / push_bitonic_sorter
   (arbitrary length; m = greatest power of two strictly below the length).
   The network functions are generic in the element type and the "greater than" test so
   that the same definitions run on elements, on numeric keys and on 0/1 keys (zero-one
   principle).  Definitions only. *)
From GV Require Import Base.Util Gadgets.Gadgets.

(* ---- keys ---------------------------------------------------------------------------- *)

(* unsigned value of a bit list, MSB first *)
Fixpoint bits_val (l : list bool) : N :=
  match l with
  | [] => 0
  | b :: r => (if b then 2 ^ lenN r else 0) + bits_val r
  end.

Definition elem := list bool.
Definition key (bits : nat) (x : elem) : N := bits_val (firstn bits x).

(* boolean function computed by push_gt_circuit: the carry chain of Sec. 3.2 of
   eprint 2009/411, run from the least significant of the first [bits] positions *)
Definition gt_step (c : bool) (xy : bool * bool) : bool :=
  let '(x, y) := xy in
  xorb (andb (xorb x c) (negb (xorb y c))) c.

Definition gt_chain (xys : list (bool * bool)) : bool := fold_left gt_step xys false.

Definition gt (bits : nat) (x y : elem) : bool :=
  gt_chain (rev (combine (firstn bits x) (firstn bits y))).

(* bit-level conditional swap of push_condswap / the loop of push_sorter *)
Definition condswap (s : bool) (x y : bool) : bool * bool :=
  let sw := andb (xorb x y) s in (xorb x sw, xorb y sw).

Definition condswap_list (s : bool) (x y : elem) : elem * elem :=
  let p := map (fun xy => condswap s (fst xy) (snd xy)) (combine x y) in
  (map fst p, map snd p).

(* push_sorter on values: (min, max) by key; the whole element moves *)
Definition sorter_bits (bits : nat) (x y : elem) : elem * elem :=
  condswap_list (gt bits x y) x y.

(* ---- generic compare-exchange networks ----------------------------------------------- *)

Section Net.
  Context {A : Type}.
  Variable gtb : A -> A -> bool.

  (* (min, max); equal keys are not swapped *)
  Definition sorter (x y : A) : A * A := if gtb x y then (y, x) else (x, y).

  (* what lands at the lower / upper position of a compare-exchange in direction [asc] *)
  Definition cx (asc : bool) (x y : A) : A * A :=
    let '(mn, mx) := sorter x y in if asc then (mn, mx) else (mx, mn).

  Fixpoint merge_pairs (asc : bool) (lower upper : list A) : list A * list A :=
    match lower, upper with
    | x :: lr, y :: ur =>
        let '(lo, hi) := cx asc x y in
        let '(lr', ur') := merge_pairs asc lr ur in
        (lo :: lr', hi :: ur')
    | _, _ => (lower, upper)
    end.

  Fixpoint merger_fuel (fuel : nat) (asc : bool) (v : list A) : list A :=
    match fuel with
    | O => v
    | S f =>
        if (length v <=? 1)%nat then v else
        let m := pow2_below (length v) 1 (length v) in
        let '(lower, upper) := merge_pairs asc (firstn m v) (skipn m v) in
        merger_fuel f asc lower ++ merger_fuel f asc upper
    end.

  Definition bitonic_merger (asc : bool) (v : list A) : list A :=
    merger_fuel (S (length v)) asc v.

  Fixpoint sorter_fuel (fuel : nat) (asc : bool) (v : list A) : list A :=
    match fuel with
    | O => v
    | S f =>
        if (length v <=? 1)%nat then v else
        let h := (length v / 2)%nat in
        let lower := sorter_fuel f (negb asc) (firstn h v) in
        let upper := sorter_fuel f asc (skipn h v) in
        bitonic_merger asc (lower ++ upper)
    end.

  Definition bitonic_sorter (v : list A) : list A := sorter_fuel (S (length v)) true v.

  (* ---- the same networks as explicit lists of compare-exchange operations ------------ *)

  (* (i, j, asc): compare positions i and j; asc: min to i, max to j; else max to i *)
  Definition cxop := (nat * nat * bool)%type.

  Fixpoint upd (l : list A) (i : nat) (a : A) : list A :=
    match l, i with
    | [], _ => []
    | _ :: r, O => a :: r
    | x :: r, S k => x :: upd r k a
    end.

  Definition run_op (v : list A) (o : cxop) : list A :=
    let '(i, j, asc) := o in
    match nth_error v i, nth_error v j with
    | Some x, Some y => let '(lo, hi) := cx asc x y in upd (upd v i lo) j hi
    | _, _ => v
    end.

  Definition run_net (net : list cxop) (v : list A) : list A := fold_left run_op net v.
End Net.

Definition shift_op (k : nat) (o : cxop) : cxop :=
  let '(i, j, asc) := o in ((k + i)%nat, (k + j)%nat, asc).
Definition shift_net (k : nat) (net : list cxop) : list cxop := map (shift_op k) net.

(* compare position i with i + g for i = 0 .. k-1 *)
Definition pairs_net (g k : nat) (asc : bool) : list cxop :=
  map (fun i => (i, (i + g)%nat, asc)) (seq 0 k).

Fixpoint merger_net (fuel : nat) (n : nat) (asc : bool) : list cxop :=
  match fuel with
  | O => []
  | S f =>
      if (n <=? 1)%nat then [] else
      let m := pow2_below n 1 n in
      pairs_net m (n - m) asc ++ merger_net f m asc ++ shift_net m (merger_net f (n - m) asc)
  end.

Fixpoint sorter_net (fuel : nat) (n : nat) (asc : bool) : list cxop :=
  match fuel with
  | O => []
  | S f =>
      if (n <=? 1)%nat then [] else
      let h := (n / 2)%nat in
      sorter_net f h (negb asc) ++ shift_net h (sorter_net f (n - h) asc)
        ++ merger_net (S n) n asc
  end.

Definition bitonic_merger_net (n : nat) (asc : bool) : list cxop := merger_net (S n) n asc.
Definition bitonic_sorter_net (n : nat) : list cxop := sorter_net (S n) n true.

(* ---- orders used in the statements ---------------------------------------------------- *)

Definition gtN (x y : N) : bool := y <? x.
Definition gtB (x y : bool) : bool := andb x (negb y).
Definition gt_key (bits : nat) (x y : elem) : bool := gtN (key bits x) (key bits y).

Fixpoint sortedN (l : list N) : bool :=
  match l with
  | a :: ((b :: _) as r) => (a <=? b) && sortedN r
  | _ => true
  end.

Definition leB (x y : bool) : bool := implb x y.
Fixpoint sortedB (l : list bool) : bool :=
  match l with
  | a :: ((b :: _) as r) => leB a b && sortedB r
  | _ => true
  end.

(* x > t as a 0/1 key: the monotone maps of the zero-one principle *)
Definition thr (t : N) (x : N) : bool := t <? x.

(* shapes of the merger's inputs (on numeric keys) *)
Definition ascN (l : list N) : Prop := sortedN l = true.
Definition descN (l : list N) : Prop := sortedN (rev l) = true.
Definition down_then_up (v : list N) : Prop := exists d u, v = d ++ u /\ descN d /\ ascN u.
Definition up_then_down (v : list N) : Prop := exists u d, v = u ++ d /\ ascN u /\ descN d.

(* all 0/1 vectors of a given length; 0^a 1^b 0^c and 1^a 0^b 1^c *)
Fixpoint all_bools (n : nat) : list (list bool) :=
  match n with
  | O => [[]]
  | S k => map (cons false) (all_bools k) ++ map (cons true) (all_bools k)
  end.

Definition blocks (x : bool) (a b c : nat) : list bool :=
  repeat x a ++ repeat (negb x) b ++ repeat x c.

(* every way of writing n = a + b + c *)
Definition splits3 (n : nat) : list (nat * nat * nat) :=
  flat_map (fun a => map (fun b => (a, b, (n - a - b)%nat)) (seq 0 (S (n - a)))) (seq 0 (S n)).

(* checks run once by vm_compute in SortProofs.v *)
Definition check_merger_blocks (x : bool) (n : nat) : bool :=
  forallb (fun abc => let '(a, b, c) := abc in sortedB (bitonic_merger gtB true (blocks x a b c)))
          (splits3 n).

Definition check_sorter_all (n : nat) : bool :=
  forallb (fun w => sortedB (bitonic_sorter gtB w)) (all_bools n).
