(* C13 -- the bitonic merger and the bitonic sorter of the compiler sort for ALL lengths.
   The 0/1 facts that Sort/SortBounded.v only checks by enumeration are proved here by
   induction on the recursion of the (arbitrary-length) merger:
     - the ascending merger sorts every 0/1 sequence 1^a 0^b 1^c of ANY length,
     - and every 0/1 sequence 0^a 1^b 0^c whose length is a POWER OF TWO,
     - the sorter sorts every 0/1 sequence of any length;
   the zero-one principle (ZeroOne.v) lifts them to keys and elements, without the length
   bounds of merger_elems_*_bounded / sorter_elems_bounded. *)
From Coq Require Import Permutation.
From GV Require Import Base.Util Gadgets.Gadgets Sort.Sort Sort.SortProofs Sort.ZeroOne.

(* ================================================================ 0/1 lists given by a predicate on positions *)

Definition mk (n : nat) (f : nat -> bool) : list bool := map f (seq 0 n).

Lemma mk_length n f : length (mk n f) = n.
Proof. unfold mk. now rewrite map_length, seq_length. Qed.

Lemma mk_ext n f g : (forall i, (i < n)%nat -> f i = g i) -> mk n f = mk n g.
Proof. intro H. unfold mk. apply map_ext_in. intros i Hi. apply in_seq in Hi. apply H. lia. Qed.

Lemma mk_S n f : mk (S n) f = f 0%nat :: mk n (fun i => f (S i)).
Proof. unfold mk. cbn [seq map]. f_equal. rewrite <- seq_shift, map_map. reflexivity. Qed.

Lemma mk_app n1 n2 f : mk (n1 + n2) f = mk n1 f ++ mk n2 (fun i => f (n1 + i)%nat).
Proof.
  unfold mk. rewrite seq_app, map_app. f_equal. cbn [Nat.add].
  assert (G : forall s, map f (seq (n1 + s) n2) = map (fun i => f (n1 + i)%nat) (seq s n2)).
  { induction n2 as [|n2 IH]; intro s; [reflexivity|]. cbn [seq map]. f_equal.
    replace (S (n1 + s)) with (n1 + S s)%nat by lia. apply IH. }
  rewrite <- (G 0%nat). now rewrite Nat.add_0_r.
Qed.

Lemma mk_const n x : mk n (fun _ => x) = repeat x n.
Proof. induction n as [|n IH]; [reflexivity|]. rewrite mk_S, IH. reflexivity. Qed.

Lemma firstn_mk m n f : (m <= n)%nat -> firstn m (mk n f) = mk m f.
Proof.
  intro H. replace n with (m + (n - m))%nat by lia. rewrite mk_app, firstn_app, mk_length, Nat.sub_diag.
  cbn [firstn]. rewrite app_nil_r. rewrite <- (mk_length m f) at 1. apply firstn_all.
Qed.

Lemma skipn_mk m n f : (m <= n)%nat -> skipn m (mk n f) = mk (n - m) (fun i => f (m + i)%nat).
Proof.
  intro H. replace n with (m + (n - m))%nat at 1 by lia. rewrite mk_app, skipn_app, mk_length, Nat.sub_diag.
  cbn [skipn]. rewrite <- (mk_length m f) at 1. rewrite skipn_all. reflexivity.
Qed.

(* decides Boolean equations between comparisons of positions *)
Ltac idx :=
  repeat match goal with
         | |- context [(?x <? ?y)%nat] => destruct (Nat.ltb_spec x y)
         | |- context [(?x <=? ?y)%nat] => destruct (Nat.leb_spec x y)
         end;
  cbn [andb orb negb]; try reflexivity; exfalso; lia.

(* the two shapes: ones outside [a, b) / ones inside [a, b) *)
Definition du (n a b : nat) : list bool := mk n (fun i => (i <? a)%nat || (b <=? i)%nat).
Definition ud (n a b : nat) : list bool := mk n (fun i => (a <=? i)%nat && (i <? b)%nat).

Lemma blocks_du a b c : blocks true a b c = du (a + b + c) a (a + b).
Proof.
  unfold blocks, du. cbn [negb]. rewrite <- Nat.add_assoc, mk_app, mk_app, <- !mk_const. f_equal; [|f_equal]; apply mk_ext; intros i Hi; idx.
Qed.

Lemma blocks_ud a b c : blocks false a b c = ud (a + b + c) a (a + b).
Proof.
  unfold blocks, ud. cbn [negb]. rewrite <- Nat.add_assoc, mk_app, mk_app, <- !mk_const. f_equal; [|f_equal]; apply mk_ext; intros i Hi; idx.
Qed.

(* ================================================================ one compare-exchange layer on 0/1 *)

Lemma cx_bool asc x y :
  cx gtB asc x y = if asc then (x && y, x || y) else (x || y, x && y).
Proof. destruct asc, x, y; reflexivity. Qed.

Lemma merge_pairs_mk m : forall k f g, (k <= m)%nat ->
  merge_pairs gtB true (mk m f) (mk k g) =
  (mk m (fun i => if (i <? k)%nat then f i && g i else f i), mk k (fun i => f i || g i)).
Proof.
  induction m as [|m IH]; intros k f g Hk.
  - assert (k = 0%nat) by lia. subst k. reflexivity.
  - destruct k as [|k].
    + reflexivity.
    + rewrite !mk_S. cbn [merge_pairs]. rewrite cx_bool, (IH k) by lia. reflexivity.
Qed.

Definition allF (l : list bool) : Prop := Forall (fun x => x = false) l.
Definition allT (l : list bool) : Prop := Forall (fun x => x = true) l.

Lemma allF_mk n f : (forall i, (i < n)%nat -> f i = false) -> allF (mk n f).
Proof. intro H. apply Forall_forall. intros x Hx. unfold mk in Hx. apply in_map_iff in Hx. destruct Hx as (i & <- & Hi). apply in_seq in Hi. apply H. lia. Qed.
Lemma allT_mk n f : (forall i, (i < n)%nat -> f i = true) -> allT (mk n f).
Proof. intro H. apply Forall_forall. intros x Hx. unfold mk in Hx. apply in_map_iff in Hx. destruct Hx as (i & <- & Hi). apply in_seq in Hi. apply H. lia. Qed.

(* a 0/1 sequence of one of the two shapes / of the down-up shape *)
Definition Bit (m : nat) (l : list bool) : Prop :=
  exists a b, (a <= b <= m)%nat /\ (l = du m a b \/ l = ud m a b).
Definition DU (m : nat) (l : list bool) : Prop := exists a b, (a <= b <= m)%nat /\ l = du m a b.

Lemma DU_Bit m l : DU m l -> Bit m l.
Proof. intros (a & b & H & ->). exists a, b. auto. Qed.

(* the half-cleaner on 1^a 0^(b-a) 1^(n-b), any n with m < n <= 2m: the lower part (length m)
   has one of the two shapes, the upper part (length n - m) is again down-up, and the lower
   part is all 0 or the upper part all 1 *)
Lemma step_du n m a b : (m < n)%nat -> (n <= 2 * m)%nat -> (a <= b <= n)%nat ->
  let v := du n a b in
  let r := merge_pairs gtB true (firstn m v) (skipn m v) in
  Bit m (fst r) /\ DU (n - m) (snd r) /\ (allF (fst r) \/ allT (snd r)).
Proof.
  intros Hm Hn Hab v r.
  assert (E : r = (mk m (fun i => if (i <? n - m)%nat
                                  then ((i <? a)%nat || (b <=? i)%nat) && ((m + i <? a)%nat || (b <=? m + i)%nat)
                                  else (i <? a)%nat || (b <=? i)%nat),
                   mk (n - m) (fun i => ((i <? a)%nat || (b <=? i)%nat) || ((m + i <? a)%nat || (b <=? m + i)%nat)))).
  { subst r v. unfold du. rewrite firstn_mk, skipn_mk by lia. apply merge_pairs_mk. lia. }
  rewrite E. cbn [fst snd]. clear E r v. unfold Bit, DU, du, ud.
  destruct (Nat.le_gt_cases b m) as [Hb|Hb]; [|destruct (Nat.le_gt_cases m a) as [Ha|Ha]; [|destruct (Nat.le_gt_cases a (b - m)) as [Hz|Hz]]].
  - (* zeros inside the lower part *)
    split; [exists a, b; split; [lia|left]; apply mk_ext; intros i Hi; idx|].
    split; [exists (n - m)%nat, (n - m)%nat; split; [lia|]; apply mk_ext; intros i Hi; idx|].
    right. apply allT_mk. intros i Hi. idx.
  - (* zeros inside the upper part *)
    split; [exists (a - m)%nat, (b - m)%nat; split; [lia|left]; apply mk_ext; intros i Hi; idx|].
    split; [exists (n - m)%nat, (n - m)%nat; split; [lia|]; apply mk_ext; intros i Hi; idx|].
    right. apply allT_mk. intros i Hi. idx.
  - (* zeros across the cut, long *)
    split; [exists 0%nat, 0%nat; split; [lia|right]; apply mk_ext; intros i Hi; idx|].
    split; [exists a, (b - m)%nat; split; [lia|]; apply mk_ext; intros i Hi; idx|].
    left. apply allF_mk. intros i Hi. idx.
  - (* zeros across the cut, short *)
    split; [exists (b - m)%nat, a; split; [lia|right]; apply mk_ext; intros i Hi; idx|].
    split; [exists (n - m)%nat, (n - m)%nat; split; [lia|]; apply mk_ext; intros i Hi; idx|].
    right. apply allT_mk. intros i Hi. idx.
Qed.

(* the half-cleaner on 0^a 1^(b-a) 0^(n-b), n = 2m *)
Lemma step_ud m a b : (1 <= m)%nat -> (a <= b <= 2 * m)%nat ->
  let v := ud (2 * m) a b in
  let r := merge_pairs gtB true (firstn m v) (skipn m v) in
  Bit m (fst r) /\ Bit m (snd r) /\ (allF (fst r) \/ allT (snd r)).
Proof.
  intros Hm Hab v r.
  assert (E : r = (mk m (fun i => if (i <? m)%nat
                                  then ((a <=? i)%nat && (i <? b)%nat) && ((a <=? m + i)%nat && (m + i <? b)%nat)
                                  else (a <=? i)%nat && (i <? b)%nat),
                   mk m (fun i => ((a <=? i)%nat && (i <? b)%nat) || ((a <=? m + i)%nat && (m + i <? b)%nat)))).
  { subst r v. unfold ud. rewrite firstn_mk, skipn_mk by lia. replace (2 * m - m)%nat with m by lia.
    apply merge_pairs_mk. lia. }
  rewrite E. cbn [fst snd]. clear E r v. unfold Bit, DU, du, ud.
  destruct (Nat.le_gt_cases b m) as [Hb|Hb]; [|destruct (Nat.le_gt_cases m a) as [Ha|Ha]; [|destruct (Nat.le_gt_cases (b - m) a) as [Hz|Hz]]].
  - split; [exists 0%nat, 0%nat; split; [lia|right]; apply mk_ext; intros i Hi; idx|].
    split; [exists a, b; split; [lia|right]; apply mk_ext; intros i Hi; idx|].
    left. apply allF_mk. intros i Hi. idx.
  - split; [exists 0%nat, 0%nat; split; [lia|right]; apply mk_ext; intros i Hi; idx|].
    split; [exists (a - m)%nat, (b - m)%nat; split; [lia|right]; apply mk_ext; intros i Hi; idx|].
    left. apply allF_mk. intros i Hi. idx.
  - split; [exists 0%nat, 0%nat; split; [lia|right]; apply mk_ext; intros i Hi; idx|].
    split; [exists (b - m)%nat, a; split; [lia|left]; apply mk_ext; intros i Hi; idx|].
    left. apply allF_mk. intros i Hi. idx.
  - split; [exists a, (b - m)%nat; split; [lia|right]; apply mk_ext; intros i Hi; idx|].
    split; [exists m, m; split; [lia|left]; apply mk_ext; intros i Hi; idx|].
    right. apply allT_mk. intros i Hi. idx.
Qed.

(* ================================================================ the merger on 0/1 *)

Lemma sortedB_app_F x y : allF x -> sortedB y = true -> sortedB (x ++ y) = true.
Proof.
  intros Hx Hy. induction Hx as [|a x Ha _ IH]; [exact Hy|]. subst a. cbn [app].
  destruct (x ++ y) as [|c r] eqn:E; [reflexivity|]. rewrite sortedB_cons, IH. reflexivity.
Qed.

Lemma allT_sorted y : allT y -> sortedB y = true.
Proof.
  induction y as [|c [|c2 y] IH]; intro H; try reflexivity.
  inversion H as [|? ? Hc H']; subst. inversion H' as [|? ? Hc2 _]; subst.
  rewrite sortedB_cons. cbn [leB implb andb]. apply IH. exact H'.
Qed.

Lemma sortedB_app_T x y : sortedB x = true -> allT y -> sortedB (x ++ y) = true.
Proof.
  intros Hx Hy. induction x as [|a [|c x] IH].
  - apply allT_sorted. exact Hy.
  - cbn [app]. destruct y as [|c y]; [reflexivity|]. inversion Hy as [|? ? Hc Hy']; subst.
    rewrite sortedB_cons, (allT_sorted _ Hy). destruct a; reflexivity.
  - rewrite sortedB_cons in Hx. apply andb_prop in Hx. destruct Hx as [H1 H2].
    cbn [app]. rewrite sortedB_cons, H1. cbn [andb]. apply IH. exact H2.
Qed.

Lemma merger_fuel_perm {A} (gtb : A -> A -> bool) f asc v : Permutation (merger_fuel gtb f asc v) v.
Proof. rewrite <- merger_net_correct. apply cmpx_perm. Qed.

Lemma pow2_below_pow fuel : forall p n, exists j, pow2_below fuel p n = (p * 2 ^ j)%nat.
Proof.
  induction fuel as [|f IH]; intros p n; cbn [pow2_below]; [exists 0%nat; cbn; lia|].
  destruct (2 * p <? n)%nat; [|exists 0%nat; cbn; lia].
  destruct (IH (2 * p)%nat n) as [j ->]. exists (S j). cbn [Nat.pow]. lia.
Qed.

(* the split point of a length >= 2 is a power of two, strictly below, at least half *)
Lemma split_point n : (2 <= n)%nat ->
  exists j, pow2_below n 1 n = (2 ^ j)%nat /\ (2 ^ j < n)%nat /\ (n <= 2 * 2 ^ j)%nat.
Proof.
  intro H. destruct (pow2_below_top n H) as (_ & H2 & H3). destruct (pow2_below_pow n 1 n) as [j E].
  exists j. rewrite E in *. rewrite Nat.mul_1_l in *. auto.
Qed.

Lemma split_point_pow2 k : pow2_below (2 ^ S k) 1 (2 ^ S k) = (2 ^ k)%nat.
Proof.
  assert (H2 : (2 <= 2 ^ S k)%nat).
  { cbn [Nat.pow]. pose proof (Nat.pow_nonzero 2 k ltac:(lia)). lia. }
  destruct (split_point _ H2) as (j & -> & H3 & H4). f_equal.
  change (2 * 2 ^ j)%nat with (2 ^ S j)%nat in H4.
  apply Nat.pow_lt_mono_r_iff in H3; [|lia]. apply Nat.pow_le_mono_r_iff in H4; [|lia]. lia.
Qed.

(* one level of the recursion *)
Lemma merger_fuel_S {A} (gtb : A -> A -> bool) f asc v : (2 <= length v)%nat ->
  merger_fuel gtb (S f) asc v =
  let m := pow2_below (length v) 1 (length v) in
  let r := merge_pairs gtb asc (firstn m v) (skipn m v) in
  merger_fuel gtb f asc (fst r) ++ merger_fuel gtb f asc (snd r).
Proof.
  intro H. cbn [merger_fuel]. destruct (Nat.leb_spec (length v) 1); [lia|]. cbv zeta.
  destruct (merge_pairs gtb asc _ _). reflexivity.
Qed.

Lemma sorted_halves f lo up :
  sortedB (merger_fuel gtB f true lo) = true -> sortedB (merger_fuel gtB f true up) = true ->
  allF lo \/ allT up ->
  sortedB (merger_fuel gtB f true lo ++ merger_fuel gtB f true up) = true.
Proof.
  intros H1 H2 [H|H].
  - apply sortedB_app_F; [|exact H2]. unfold allF. eapply Permutation_Forall; [apply Permutation_sym, merger_fuel_perm|exact H].
  - apply sortedB_app_T; [exact H1|]. unfold allT. eapply Permutation_Forall; [apply Permutation_sym, merger_fuel_perm|exact H].
Qed.

Lemma short_sorted (l : list bool) : (length l <= 1)%nat -> sortedB l = true.
Proof. destruct l as [|a [|c l]]; cbn [length]; try reflexivity. lia. Qed.

Lemma merger_short {A} (gtb : A -> A -> bool) f asc v : (length v <= 1)%nat -> merger_fuel gtb f asc v = v.
Proof. intro H. destruct f; cbn [merger_fuel]; [reflexivity|]. destruct (Nat.leb_spec (length v) 1); [reflexivity|lia]. Qed.

Lemma Bit_length m l : Bit m l -> length l = m.
Proof. intros (a & b & _ & [-> | ->]); apply mk_length. Qed.
Lemma DU_length m l : DU m l -> length l = m.
Proof. intros (a & b & _ & ->). apply mk_length. Qed.

(* power-of-two lengths: both shapes *)
Lemma merger_bit k : forall f l, (2 ^ k <= f)%nat -> Bit (2 ^ k) l ->
  sortedB (merger_fuel gtB f true l) = true.
Proof.
  induction k as [|k IH]; intros f l Hf Hl.
  - rewrite merger_short by (rewrite (Bit_length _ _ Hl); cbn; lia). apply short_sorted. rewrite (Bit_length _ _ Hl). cbn. lia.
  - pose proof (Bit_length _ _ Hl) as Ll.
    assert (H2 : (2 <= 2 ^ S k)%nat) by (cbn [Nat.pow]; pose proof (Nat.pow_nonzero 2 k ltac:(lia)); lia).
    destruct f as [|f]; [lia|]. rewrite merger_fuel_S by lia. rewrite Ll, split_point_pow2. cbv zeta.
    assert (Hm : (1 <= 2 ^ k)%nat) by (pose proof (Nat.pow_nonzero 2 k ltac:(lia)); lia).
    assert (Hf' : (2 ^ k <= f)%nat) by (cbn [Nat.pow] in Hf; lia).
    destruct Hl as (a & b & Hab & [-> | ->]).
    + change (2 ^ S k)%nat with (2 * 2 ^ k)%nat in *.
      destruct (step_du (2 * 2 ^ k) (2 ^ k) a b ltac:(lia) ltac:(lia) Hab) as (B1 & B2 & B3).
      replace (2 * 2 ^ k - 2 ^ k)%nat with (2 ^ k)%nat in B2 by lia.
      apply sorted_halves; [apply IH; assumption|apply IH; [assumption|apply DU_Bit; exact B2]|exact B3].
    + change (2 ^ S k)%nat with (2 * 2 ^ k)%nat in *.
      destruct (step_ud (2 ^ k) a b Hm Hab) as (B1 & B2 & B3).
      apply sorted_halves; [apply IH; assumption|apply IH; assumption|exact B3].
Qed.

(* any length: the down-up shape *)
Lemma merger_du f : forall n l, (n <= f)%nat -> DU n l -> sortedB (merger_fuel gtB f true l) = true.
Proof.
  induction f as [|f IH]; intros n l Hf Hl; pose proof (DU_length _ _ Hl) as Ll.
  - rewrite merger_short by lia. apply short_sorted. lia.
  - destruct (Nat.le_gt_cases n 1) as [H1|H1]; [rewrite merger_short by lia; apply short_sorted; lia|].
    rewrite merger_fuel_S by lia. rewrite Ll. destruct (split_point n ltac:(lia)) as (j & -> & Hj1 & Hj2). cbv zeta.
    destruct Hl as (a & b & Hab & ->).
    destruct (step_du n (2 ^ j) a b Hj1 Hj2 Hab) as (B1 & B2 & B3).
    apply sorted_halves; [apply (merger_bit j); [lia|exact B1]|apply (IH (n - 2 ^ j)%nat); [lia|exact B2]|exact B3].
Qed.

(* the 0/1 lemmas, for all lengths *)
Theorem merger_sorts_blocks_down_up a b c :
  sortedB (bitonic_merger gtB true (blocks true a b c)) = true.
Proof.
  unfold bitonic_merger. rewrite blocks_du. apply (merger_du _ (a + b + c)).
  - unfold du. rewrite mk_length. lia.
  - exists a, (a + b)%nat. split; [lia|reflexivity].
Qed.

Theorem merger_sorts_blocks_up_down a b c k : (a + b + c = 2 ^ k)%nat ->
  sortedB (bitonic_merger gtB true (blocks false a b c)) = true.
Proof.
  intro E. unfold bitonic_merger. rewrite blocks_ud. apply (merger_bit k).
  - unfold ud. rewrite mk_length. lia.
  - rewrite <- E. exists a, (a + b)%nat. split; [lia|]. right. reflexivity.
Qed.

(* ================================================================ the descending merger, by complement *)

Lemma merge_pairs_neg l : forall u,
  merge_pairs gtB false (map negb l) (map negb u) =
  (map negb (fst (merge_pairs gtB true l u)), map negb (snd (merge_pairs gtB true l u))).
Proof.
  induction l as [|x l IH]; intros [|y u]; cbn [map merge_pairs fst snd]; try reflexivity.
  rewrite !cx_bool, IH. destruct (merge_pairs gtB true l u) as [lo hi]. cbn [fst snd map].
  destruct x, y; reflexivity.
Qed.

Lemma merger_neg f : forall v,
  merger_fuel gtB f false (map negb v) = map negb (merger_fuel gtB f true v).
Proof.
  induction f as [|f IH]; intro v; cbn [merger_fuel]; [reflexivity|]. rewrite map_length.
  destruct (length v <=? 1)%nat; [reflexivity|].
  rewrite firstn_map, skipn_map, merge_pairs_neg.
  destruct (merge_pairs gtB true _ _) as [lo hi]. cbn [fst snd]. rewrite !IH, map_app. reflexivity.
Qed.

Lemma map_repeat {X Y} (f : X -> Y) x n : map f (repeat x n) = repeat (f x) n.
Proof. induction n as [|n IH]; cbn [repeat map]; [reflexivity|now rewrite IH]. Qed.

Lemma blocks_neg a b c : blocks false a b c = map negb (blocks true a b c).
Proof.
  unfold blocks. cbn [negb]. rewrite !map_app, !map_repeat. reflexivity.
Qed.

(* ================================================================ the sorter on 0/1 *)

(* sorted in direction [asc] *)
Definition Sdir (asc : bool) (l : list bool) : Prop :=
  exists a b, l = repeat (negb asc) a ++ repeat asc b.

Lemma Sdir_short asc l : (length l <= 1)%nat -> Sdir asc l.
Proof.
  destruct l as [|x [|y l]]; cbn [length]; intro H; [exists 0%nat, 0%nat; reflexivity| |lia].
  destruct (Bool.bool_dec x asc) as [->|Hne]; [exists 0%nat, 1%nat; reflexivity|].
  exists 1%nat, 0%nat. cbn [repeat app]. destruct x, asc; try reflexivity; congruence.
Qed.

Lemma merger_dir asc a b c : Sdir asc (bitonic_merger gtB asc (blocks asc a b c)).
Proof.
  destruct asc.
  - destruct (sortedB_shape _ (merger_sorts_blocks_down_up a b c)) as (x & y & E). exists x, y. exact E.
  - rewrite blocks_neg. unfold bitonic_merger. rewrite map_length, merger_neg.
    destruct (sortedB_shape _ (merger_sorts_blocks_down_up a b c)) as (x & y & E).
    unfold bitonic_merger in E. rewrite E. exists x, y. rewrite map_app, !map_repeat. reflexivity.
Qed.

Lemma sorter_fuel_S {A} (gtb : A -> A -> bool) f asc v : (2 <= length v)%nat ->
  sorter_fuel gtb (S f) asc v =
  bitonic_merger gtb asc (sorter_fuel gtb f (negb asc) (firstn (length v / 2) v)
                          ++ sorter_fuel gtb f asc (skipn (length v / 2) v)).
Proof. intro H. cbn [sorter_fuel]. destruct (Nat.leb_spec (length v) 1); [lia|reflexivity]. Qed.

Lemma sorter_dir f : forall asc v, (length v <= f)%nat -> Sdir asc (sorter_fuel gtB f asc v).
Proof.
  induction f as [|f IH]; intros asc v Hf.
  - cbn [sorter_fuel]. apply Sdir_short. lia.
  - destruct (Nat.le_gt_cases (length v) 1) as [H1|H1].
    + cbn [sorter_fuel]. destruct (Nat.leb_spec (length v) 1); [|lia]. apply Sdir_short. exact H1.
    + rewrite sorter_fuel_S by lia.
      assert (Hh : (length v / 2 < length v)%nat) by (apply Nat.div_lt; lia).
      assert (Hh1 : (1 <= length v / 2)%nat) by (apply Nat.div_le_lower_bound; lia).
      destruct (IH (negb asc) (firstn (length v / 2) v)) as (a & b & ->); [rewrite firstn_length; lia|].
      destruct (IH asc (skipn (length v / 2) v)) as (c & d & ->); [rewrite skipn_length; lia|].
      rewrite Bool.negb_involutive.
      replace ((repeat asc a ++ repeat (negb asc) b) ++ repeat (negb asc) c ++ repeat asc d)
        with (blocks asc a (b + c) d)
        by (unfold blocks; rewrite repeat_app, <- !app_assoc; reflexivity).
      apply merger_dir.
Qed.

Theorem sorter_sorts_bools (w : list bool) : sortedB (bitonic_sorter gtB w) = true.
Proof.
  unfold bitonic_sorter. destruct (sorter_dir (S (length w)) true w ltac:(lia)) as (a & b & ->).
  cbn [negb]. apply sortedB_app_F; [apply Forall_forall; intros x Hx; now apply repeat_spec in Hx|].
  apply allT_sorted. apply Forall_forall. intros x Hx. now apply repeat_spec in Hx.
Qed.

(* ================================================================ keys: the zero-one principle *)

Theorem merger_sorts_down_up (v : list N) :
  down_then_up v -> sortedN (bitonic_merger gtN true v) = true.
Proof.
  intro Hs. rewrite <- bitonic_merger_net_correct. apply zero_one_principle. intro t.
  destruct (down_then_up_thr t v Hs) as (a & b & c & E & Hl).
  rewrite <- (map_length (thr t) v) at 1. rewrite bitonic_merger_net_correct, E.
  apply merger_sorts_blocks_down_up.
Qed.

Theorem merger_sorts_up_down (v : list N) (k : nat) :
  length v = (2 ^ k)%nat -> up_then_down v -> sortedN (bitonic_merger gtN true v) = true.
Proof.
  intros Hn Hs. rewrite <- bitonic_merger_net_correct. apply zero_one_principle. intro t.
  destruct (up_then_down_thr t v Hs) as (a & b & c & E & Hl).
  rewrite <- (map_length (thr t) v) at 1. rewrite bitonic_merger_net_correct, E.
  apply (merger_sorts_blocks_up_down a b c k). lia.
Qed.

Theorem sorter_sorts (v : list N) : sortedN (bitonic_sorter gtN v) = true.
Proof.
  rewrite <- bitonic_sorter_net_correct. apply zero_one_principle. intro t.
  rewrite <- (map_length (thr t) v) at 1. rewrite bitonic_sorter_net_correct.
  apply sorter_sorts_bools.
Qed.

(* ================================================================ elements *)

Theorem merger_elems_up_down bits (v : list elem) k :
  length v = (2 ^ k)%nat -> up_then_down (map (key bits) v) ->
  sortedN (map (key bits) (bitonic_merger (gt_key bits) true v)) = true /\
  Permutation (bitonic_merger (gt_key bits) true v) v.
Proof.
  intros Hn Hs. split; [|apply bitonic_merger_perm].
  rewrite merger_keys. apply (merger_sorts_up_down _ k); [now rewrite map_length|exact Hs].
Qed.

Theorem merger_elems_down_up bits (v : list elem) :
  down_then_up (map (key bits) v) ->
  sortedN (map (key bits) (bitonic_merger (gt_key bits) true v)) = true /\
  Permutation (bitonic_merger (gt_key bits) true v) v.
Proof.
  intro Hs. split; [|apply bitonic_merger_perm]. rewrite merger_keys. apply merger_sorts_down_up. exact Hs.
Qed.

Theorem sorter_elems bits (v : list elem) :
  sortedN (map (key bits) (bitonic_sorter (gt_key bits) v)) = true /\
  Permutation (bitonic_sorter (gt_key bits) v) v.
Proof. split; [|apply bitonic_sorter_perm]. rewrite sorter_keys. apply sorter_sorts. Qed.

Print Assumptions merger_elems_up_down.
Print Assumptions merger_elems_down_up.
Print Assumptions sorter_elems.

(* beyond the old bounds: 100 keys (sorter: was <= 16), a down-up sequence of length 97
   (merger: was <= 64); both by the theorems, no evaluation *)
Example sorter_100 :
  sortedN (bitonic_sorter gtN (map (fun i => N.of_nat ((i * 37) mod 101)) (seq 0 100))) = true.
Proof. apply sorter_sorts. Qed.

Example merger_97 :
  sortedN (bitonic_merger gtN true (map N.of_nat (rev (seq 0 40)) ++ map N.of_nat (seq 5 57))) = true.
Proof.
  apply merger_sorts_down_up. eexists. eexists. split; [reflexivity|]. split; vm_compute; reflexivity.
Qed.
