#!/bin/sh
# Builds the whole framework offline from files on disk: Coq development (full .vo build),
# extracted model runner, Rust harness against /repo's working tree.
set -e
cd "$(dirname "$0")"
export CARGO_NET_OFFLINE=true
mkdir -p work evidence/replay
python3 tools/sites.py --write >/dev/null
(cd coq && coq_makefile -f _CoqProject -o Makefile >/dev/null && make -j16 2>&1 | grep -v '^WARNING' | tail -5)
python3 - <<'PY'
import sys; sys.path.insert(0, "tools")
import vlib
ok, out = vlib.build_ocaml()
print("model runner:", "ok" if ok else out[-2000:])
ok2, out2 = vlib.build_harness()
print("harness:", "ok" if ok2 else out2[-2000:])
sys.exit(0 if ok and ok2 else 1)
PY
